(* ResyncProofs.v — reading the WAL stream from a block boundary in the middle
   (resynchronisation of the record reader): part (B) of the plan for property C01, at the level
   of the in-memory block reader vecr of Driver.v.  Same setting as StreamProofs.v. *)
From Coq Require Import Lia ZArith ZifyN ZifyNat ZifyBool Sorted.
From MRL Require Import Bytes BytesProofs Params Frame Driver StreamProofs DamageProofs TornProofs.

Arguments N.add : simpl never.
Arguments N.sub : simpl never.
Arguments N.mul : simpl never.
Arguments N.eqb : simpl never.
Arguments N.ltb : simpl never.
Arguments N.leb : simpl never.
Arguments N.div : simpl never.
Arguments N.modulo : simpl never.
Arguments N.min : simpl never.
Arguments N.max : simpl never.

Section Resync.
Variable P : params.
Hypothesis HBS_lo : 7 < BS P.
Hypothesis HBS_hi : BS P <= 65542.
Hypothesis Hcrc : forall t p, crcf P t p < 2 ^ 32.

Local Notation B := (BS P).
Local Notation rframe := (read_frame P vecr (vr_next P) vr_block).
Local Notation gonext := (go_next P vecr (vr_next P) vr_block).
Local Notation pad_of := (pad_of P).
Local Notation chunk_of := (chunk_of P).
Local Notation enc_rel := (enc_rel P).
Local Notation encs_rel := (encs_rel P).
Local Notation rd_at := (rd_at P).
Local Notation at_pos := (at_pos P).
Local Notation at_posn := (at_posn P).
Local Notation stream_ok := (stream_ok P).
Local Notation mem_read_fin := (mem_read_fin P).
Local Notation H3 f := (f P HBS_lo HBS_hi Hcrc) (only parsing).
Local Notation H2 f := (f P HBS_lo HBS_hi) (only parsing).
Local Notation mod_kB := (H2 StreamProofs.mod_kB).
Local Notation mod_kc := (H2 StreamProofs.mod_kc).
Local Notation mod_lt_B := (H2 StreamProofs.mod_lt_B).
Local Notation blocks_room := (H2 StreamProofs.blocks_room).
Local Notation lenN_frame_bytes := (StreamProofs.lenN_frame_bytes P).
Local Notation lenN_pad_of := (StreamProofs.lenN_pad_of P).
Local Notation read_frame_zero := (H3 StreamProofs.read_frame_zero).
Local Notation go_next_record := (H3 StreamProofs.go_next_record).
Local Notation enc_rel_frames := (H3 StreamProofs.enc_rel_frames).
Local Notation encs_rel_len := (H3 StreamProofs.encs_rel_len).
Local Notation lenN_take_chunk := (H3 StreamProofs.lenN_take_chunk).
Local Notation write_record_vecw := (H3 StreamProofs.write_record_vecw).
Local Notation go_next_skip := (H3 DamageProofs.go_next_skip).
Local Notation encs_rel_app_inv := (H3 DamageProofs.encs_rel_app_inv).
Local Notation pad_geom := (H2 TornProofs.pad_geom).
Local Notation at_pos_pad := (H3 TornProofs.at_pos_pad).
Local Notation kc_unique := (H2 TornProofs.kc_unique).
Local Notation blocks_below := (H2 TornProofs.blocks_below).
Local Notation blocks_above := (H2 TornProofs.blocks_above).
Local Notation mulB_le := (TornProofs.mulB_le P).
Local Notation mulB_le_inv := (H2 TornProofs.mulB_le_inv).
Local Notation gonext_cong := (TornProofs.gonext_cong P).
Local Notation read_all_entries_fin := (H3 TornProofs.read_all_entries_fin).
Local Notation mem_read_fin_fst := (TornProofs.mem_read_fin_fst P).

(* ---------- (2) first-frame positions ---------- *)
(* the position at which the first frame of an entry written at cursor a starts: the writer
   first pads to the next block when fewer than 7 bytes remain in the current one *)
Definition first_frame_pos (a : N) : N := a + lenN (pad_of a).
Local Notation ffp := first_frame_pos.

Lemma ffp_ge a : a <= ffp a.
Proof. unfold first_frame_pos. lia. Qed.

Lemma aligned_elim b : b mod B = 0 -> b = (b / B) * B.
Proof. intros H. pose proof (N.div_mod b B) as Hdm. lia. Qed.

Lemma pad_of_aligned kb : pad_of (kb * B) = [].
Proof.
  unfold StreamProofs.pad_of. rewrite N.mod_mul by lia.
  destruct (N.ltb_spec (B - 0) 7) as [Hlt|_]; [lia | reflexivity].
Qed.

Lemma ffp_aligned kb : ffp (kb * B) = kb * B.
Proof. unfold first_frame_pos. rewrite pad_of_aligned, (@lenN_nil byte). lia. Qed.

(* a block boundary at or after the cursor is at or after the first-frame position *)
Lemma ffp_le_boundary a kb : a <= kb * B -> ffp a <= kb * B.
Proof.
  intros Ha. unfold first_frame_pos.
  destruct (pad_geom a) as (k' & c' & Hp & Hc' & _ & [Hz | (Hc0 & Hpad & k0 & Hk' & Ha0)]).
  - lia.
  - subst c' k'. rewrite Hp.
    pose proof (blocks_above kb k0 (B - lenN (pad_of a))) as Hb. lia.
Qed.

(* ... hence a block boundary between the cursor and the first-frame position IS the
   first-frame position (only padding lies in between) *)
Lemma boundary_is_ffp a kb : a <= kb * B -> kb * B <= ffp a -> kb * B = ffp a.
Proof. intros H1 H2. pose proof (ffp_le_boundary a kb H1). lia. Qed.

Lemma chunk_fits a p : chunk_of a p <= max_writable P (B - a mod B).
Proof. unfold StreamProofs.chunk_of. lia. Qed.

Lemma chunk_full a p : dropN (chunk_of a p) p <> [] -> chunk_of a p = max_writable P (B - a mod B).
Proof.
  intros Hd.
  assert (Hl : lenN (dropN (chunk_of a p) p) <> 0).
  { intros E. apply Hd. now apply lenN_0_nil. }
  rewrite lenN_dropN in Hl. unfold StreamProofs.chunk_of in *. lia.
Qed.

Lemma lenN_enc_last a f p :
  lenN (pad_of a ++ frame_bytes P (frame_type f true) (takeN (chunk_of a p) p)) =
  lenN (pad_of a) + 7 + chunk_of a p.
Proof. rewrite lenN_app, lenN_frame_bytes, lenN_take_chunk. lia. Qed.

Lemma lenN_enc_more a f p (e : bytes) :
  lenN (pad_of a ++ frame_bytes P (frame_type f false) (takeN (chunk_of a p) p) ++ e) =
  lenN (pad_of a) + 7 + chunk_of a p + lenN e.
Proof. rewrite !lenN_app, lenN_frame_bytes, lenN_take_chunk. lia. Qed.

(* the first frame of an encoding starts at the first-frame position and is inside it *)
Lemma enc_rel_ffp_lt a f p e k : enc_rel a f p e k -> ffp a + 7 <= a + lenN e.
Proof.
  unfold first_frame_pos.
  destruct 1 as [a f p Hd | a f p e k Hd Hr].
  - rewrite lenN_enc_last. lia.
  - rewrite lenN_enc_more. lia.
Qed.

(* ---------- (1) block boundaries are frame boundaries ---------- *)
(* kb*B strictly after the start of the first frame and at most at the end of the encoding:
   either it is the end of the encoding, or the encoding splits there into whole frames, the
   second part being the encoding of the rest of the payload as a non-first continuation *)
Lemma enc_rel_split_at_block a f p e k :
  enc_rel a f p e k ->
  forall kb, ffp a < kb * B -> kb * B <= a + lenN e ->
    kb * B = a + lenN e \/
    exists e1 e2 p1 p2 k2,
      e = e1 ++ e2 /\ a + lenN e1 = kb * B /\ p = p1 ++ p2 /\
      enc_rel (kb * B) false p2 e2 k2 /\ (k2 < k)%nat.
Proof.
  induction 1 as [a f p Hd | a f p e k Hd Hr IH]; intros kb Hlo Hhi.
  - left. rewrite lenN_enc_last in *. unfold first_frame_pos in Hlo.
    destruct (pad_geom a) as (k' & c' & Hp & Hc' & Hmw & _).
    pose proof (chunk_fits a p) as Hch.
    pose proof (blocks_above kb k' (c' + 1)) as Hb. lia.
  - rewrite lenN_enc_more in *. unfold first_frame_pos in Hlo.
    destruct (pad_geom a) as (k' & c' & Hp & Hc' & Hmw & _).
    pose proof (chunk_full a p Hd) as Hch.
    pose proof (blocks_above kb k' (c' + 1)) as Hb.
    set (a' := a + lenN (pad_of a) + 7 + chunk_of a p) in *.
    assert (Ha' : a' = (k' + 1) * B) by (unfold a'; lia).
    set (fb := frame_bytes P (frame_type f false) (takeN (chunk_of a p) p)) in *.
    assert (Hfb : lenN (pad_of a ++ fb) = lenN (pad_of a) + 7 + chunk_of a p).
    { unfold fb. rewrite lenN_app, lenN_frame_bytes, lenN_take_chunk. lia. }
    destruct (N.eq_dec (kb * B) a') as [E|E].
    + right. exists (pad_of a ++ fb), e, (takeN (chunk_of a p) p), (dropN (chunk_of a p) p), k.
      repeat split.
      * now rewrite <- app_assoc.
      * rewrite Hfb. unfold a' in E. lia.
      * now rewrite takeN_dropN.
      * rewrite E. exact Hr.
      * lia.
    + assert (Hffp : ffp a' = a') by (rewrite Ha'; apply ffp_aligned).
      destruct (IH kb) as [Hend | (e1 & e2 & p1 & p2 & k2 & He & Hl & Hp12 & Hrel & Hk)].
      * rewrite Hffp. lia.
      * lia.
      * left. lia.
      * right. exists (pad_of a ++ fb ++ e1), e2, (takeN (chunk_of a p) p ++ p1), p2, k2.
        repeat split.
        -- rewrite He, <- !app_assoc. reflexivity.
        -- rewrite app_assoc, lenN_app, Hfb. unfold a' in Hl. lia.
        -- rewrite <- app_assoc, <- Hp12. now rewrite takeN_dropN.
        -- exact Hrel.
        -- lia.
Qed.

(* the same for a boundary given by b mod B = 0 *)
Lemma enc_rel_split_at_boundary a f p e k b :
  enc_rel a f p e k -> b mod B = 0 ->
  a + lenN (pad_of a) < b -> b <= a + lenN e ->
    b = a + lenN e \/
    exists e1 e2 p1 p2 k2,
      e = e1 ++ e2 /\ a + lenN e1 = b /\ p = p1 ++ p2 /\
      enc_rel b false p2 e2 k2 /\ (k2 < k)%nat.
Proof.
  intros He Hb. rewrite (aligned_elim b Hb). apply (enc_rel_split_at_block a f p e k He).
Qed.

(* the easy case: a boundary at or before the first-frame position and at or after the
   cursor has only padding before it, and is the first-frame position itself *)
Lemma boundary_before_first_frame a b :
  b mod B = 0 -> a <= b -> b <= a + lenN (pad_of a) -> b = a + lenN (pad_of a).
Proof.
  intros Hb. rewrite (aligned_elim b Hb). apply boundary_is_ffp.
Qed.

(* ---------- the encoding as a function ---------- *)
Lemma enc_rel_det a f p e k :
  enc_rel a f p e k -> forall e' k', enc_rel a f p e' k' -> e = e' /\ k = k'.
Proof.
  induction 1 as [a f p Hd | a f p e k Hd Hr IH]; intros e' k' H'.
  - inversion H' as [a0 f0 p0 Hd' | a0 f0 p0 e0 k0 Hd' Hr']; subst.
    + split; reflexivity.
    + contradiction.
  - inversion H' as [a0 f0 p0 Hd' | a0 f0 p0 e0 k0 Hd' Hr']; subst.
    + contradiction.
    + destruct (IH _ _ Hr') as [-> ->]. split; reflexivity.
Qed.

(* what the in-memory writer appends for payload p when its cursor is a *)
Definition enc_of (a : N) (p : bytes) : bytes :=
  vw_buf (fst (write_record P vecw vw_write (vw_rem P) (mkVecW a []) p)).

Lemma enc_of_rel a p : exists k, enc_rel a true p (enc_of a p) k.
Proof.
  destruct (write_record_vecw (mkVecW a []) p) as (e & k & Hrel & Hwr).
  exists k. unfold enc_of. rewrite Hwr. cbn [fst vw_buf vw_cursor app] in *. exact Hrel.
Qed.

Lemma enc_rel_enc_of a p e k : enc_rel a true p e k -> enc_of a p = e.
Proof.
  intros H. destruct (enc_of_rel a p) as [k' H'].
  destruct (enc_rel_det _ _ _ _ _ H' _ _ H) as [E _]. exact E.
Qed.

(* the writer, whatever its buffer, appends enc_of cursor p *)
Lemma write_record_enc_of w p :
  write_record P vecw vw_write (vw_rem P) w p =
    (mkVecW (vw_cursor w + lenN (enc_of (vw_cursor w) p)) (vw_buf w ++ enc_of (vw_cursor w) p),
     Ok (lenN (enc_of (vw_cursor w) p))).
Proof.
  destruct (write_record_vecw w p) as (e & k & Hrel & Hwr).
  rewrite (enc_rel_enc_of _ _ _ _ Hrel). exact Hwr.
Qed.

Fixpoint encs_of (a : N) (es : list bytes) : bytes :=
  match es with
  | [] => []
  | p :: ps => enc_of a p ++ encs_of (a + lenN (enc_of a p)) ps
  end.

Lemma encs_of_rel es : forall a, encs_rel a es (encs_of a es).
Proof.
  induction es as [|p ps IH]; intros a; cbn [encs_of].
  - constructor.
  - destruct (enc_of_rel a p) as [k Hk]. econstructor; [exact Hk | apply IH].
Qed.

Lemma encs_rel_encs_of a es t : encs_rel a es t -> encs_of a es = t.
Proof.
  induction 1 as [a | a p ps e k t He Hes IH]; cbn [encs_of].
  - reflexivity.
  - rewrite (enc_rel_enc_of _ _ _ _ He), IH. reflexivity.
Qed.

Lemma encs_rel_det a es t t' : encs_rel a es t -> encs_rel a es t' -> t = t'.
Proof. intros H H'. rewrite <- (encs_rel_encs_of _ _ _ H). now apply encs_rel_encs_of. Qed.

Lemma encs_of_app es1 : forall a es2,
  encs_of a (es1 ++ es2) = encs_of a es1 ++ encs_of (a + lenN (encs_of a es1)) es2.
Proof.
  induction es1 as [|p ps IH]; intros a es2; cbn [encs_of app].
  - rewrite (@lenN_nil byte), N.add_0_r. reflexivity.
  - rewrite IH, <- app_assoc, lenN_app. do 3 f_equal. lia.
Qed.

(* the cursor after writing es from a *)
Definition cursor_after (a : N) (es : list bytes) : N := a + lenN (encs_of a es).

Lemma cursor_after_nil a : cursor_after a [] = a.
Proof. unfold cursor_after. cbn [encs_of]. rewrite (@lenN_nil byte). lia. Qed.

Lemma cursor_after_cons a p ps :
  cursor_after a (p :: ps) = cursor_after (a + lenN (enc_of a p)) ps.
Proof. unfold cursor_after. cbn [encs_of]. rewrite lenN_app. lia. Qed.

Lemma cursor_after_app a es1 es2 :
  cursor_after a (es1 ++ es2) = cursor_after (cursor_after a es1) es2.
Proof. unfold cursor_after. rewrite encs_of_app, lenN_app. lia. Qed.

Lemma cursor_after_rel a es t : encs_rel a es t -> cursor_after a es = a + lenN t.
Proof. intros H. unfold cursor_after. now rewrite (encs_rel_encs_of _ _ _ H). Qed.

Lemma enc_of_ffp a p : ffp a + 7 <= a + lenN (enc_of a p).
Proof. destruct (enc_of_rel a p) as [k Hk]. apply (enc_rel_ffp_lt _ _ _ _ _ Hk). Qed.

Lemma cursor_after_ge es : forall a, a <= cursor_after a es.
Proof.
  induction es as [|p ps IH]; intros a.
  - rewrite cursor_after_nil. lia.
  - rewrite cursor_after_cons. pose proof (IH (a + lenN (enc_of a p))). lia.
Qed.

(* (start cursor, first-frame position) of each entry of es written from cursor a *)
Fixpoint starts (a : N) (es : list bytes) : list (N * N) :=
  match es with
  | [] => []
  | p :: ps => (a, ffp a) :: starts (a + lenN (enc_of a p)) ps
  end.

Lemma starts_length es : forall a, length (starts a es) = length es.
Proof. induction es as [|p ps IH]; intros a; cbn [starts length]; [reflexivity | now rewrite IH]. Qed.

Lemma starts_app es1 : forall a es2,
  starts a (es1 ++ es2) = starts a es1 ++ starts (cursor_after a es1) es2.
Proof.
  induction es1 as [|p ps IH]; intros a es2; cbn [starts app].
  - now rewrite cursor_after_nil.
  - rewrite IH, cursor_after_cons. reflexivity.
Qed.

(* every entry starts at or after the cursor, its first frame at or after its start, and
   strictly before the end of the whole encoding *)
Lemma starts_bounds es : forall a,
  Forall (fun s => a <= fst s /\ fst s <= snd s /\ snd s + 7 <= cursor_after a es) (starts a es).
Proof.
  induction es as [|p ps IH]; intros a; cbn [starts]; constructor.
  - cbn [fst snd]. rewrite cursor_after_cons.
    pose proof (ffp_ge a). pose proof (enc_of_ffp a p).
    pose proof (cursor_after_ge ps (a + lenN (enc_of a p))). lia.
  - rewrite cursor_after_cons. eapply Forall_impl; [|apply IH].
    cbn beta. intros s (H1 & H2 & H3). pose proof (enc_of_ffp a p). pose proof (ffp_ge a). lia.
Qed.

(* start cursors and first-frame positions are increasing along the log: each entry's first
   frame is at least 7 bytes before the start cursor of the next one *)
Inductive chain_lt : list (N * N) -> Prop :=
| chain_nil : chain_lt []
| chain_one s : fst s <= snd s -> chain_lt [s]
| chain_cons s s' l : fst s <= snd s -> snd s + 7 <= fst s' -> chain_lt (s' :: l) -> chain_lt (s :: s' :: l).

Lemma starts_chain es : forall a, chain_lt (starts a es).
Proof.
  induction es as [|p ps IH]; intros a; cbn [starts].
  - constructor.
  - specialize (IH (a + lenN (enc_of a p))).
    destruct ps as [|q qs]; cbn [starts] in *.
    + constructor. cbn [fst snd]. apply ffp_ge.
    + constructor; [apply ffp_ge | cbn [fst snd]; apply enc_of_ffp | exact IH].
Qed.

Lemma starts_sorted es : forall a, Sorted.StronglySorted (fun s s' => snd s < snd s') (starts a es).
Proof.
  induction es as [|p ps IH]; intros a; cbn [starts]; constructor.
  - apply IH.
  - pose proof (starts_bounds ps (a + lenN (enc_of a p))) as Hb.
    eapply Forall_impl; [|exact Hb]. cbn beta. intros s (H1 & H2 & _). cbn [snd].
    pose proof (enc_of_ffp a p). lia.
Qed.

(* ---------- (4) the entries delivered from a boundary ---------- *)
(* the suffix of es (written from cursor a) starting at the first entry whose first frame is at
   or after position b, and the prefix before it *)
Fixpoint delivered_from (b a : N) (es : list bytes) : list bytes :=
  match es with
  | [] => []
  | p :: ps => if b <=? ffp a then p :: ps else delivered_from b (a + lenN (enc_of a p)) ps
  end.

Fixpoint skipped_before (b a : N) (es : list bytes) : list bytes :=
  match es with
  | [] => []
  | p :: ps => if b <=? ffp a then [] else p :: skipped_before b (a + lenN (enc_of a p)) ps
  end.

(* ---------- the end of the log, with the final reader position ---------- *)
(* a reader at a, at or after the end of the written bytes: End, and the frame reader is left
   at the normalised position first_frame_pos a *)
Lemma read_frame_end_pos S written z nb fr a :
  S = written ++ zerosN z -> lenN S = (nb + 1) * B -> lenN written <= a -> a <= nb * B ->
  at_pos S fr a ->
  exists fr', rframe fr = (fr', FNotAvail) /\ at_posn S fr' (ffp a).
Proof.
  intros HS HlenS Hw Ha Hat.
  assert (Hok : stream_ok S) by (exists (nb + 1); exact HlenS).
  pose proof (ffp_le_boundary a nb Ha) as Hf. pose proof (ffp_ge a) as Hg.
  unfold first_frame_pos in *.
  destruct (pad_geom a) as (k' & c' & Hp & Hc' & _ & _).
  assert (Hblk : (k' + 1) * B <= lenN S) by lia.
  rewrite (at_pos_pad S fr a k' c' Hok Hat Hp Hc' Hblk).
  exists (rd_at S k' c'). split.
  - apply read_frame_zero; [lia|].
    rewrite sliceN_sliceN by lia. rewrite HS. apply slice_zero. lia.
  - exists k', c'. repeat split; assumption.
Qed.

Lemma go_next_end_pos S written z nb rr a g :
  S = written ++ zerosN z -> lenN S = (nb + 1) * B -> lenN written <= a -> a <= nb * B ->
  at_pos S (rr_fr rr) a ->
  exists fr', gonext (Datatypes.S g) rr = (mkRR fr' (rr_buf rr) (rr_within rr), REnd) /\
              at_posn S fr' (ffp a).
Proof.
  intros HS HlenS Hw Ha Hat.
  destruct (read_frame_end_pos S written z nb (rr_fr rr) a HS HlenS Hw Ha Hat) as (fr' & Hrf & Hp).
  exists fr'. split; [|exact Hp]. cbn [go_next]. rewrite Hrf. reflexivity.
Qed.

(* reading a run of intact entries followed by the zero tail, when the first go_next of the
   loop behaves as a go_next (fuel g) of a reader rr1 positioned at the start r of the run *)
Lemma read_tail_pos S r es2 t2 pre z nb gofuel :
  encs_rel r es2 t2 -> S = pre ++ t2 ++ zerosN z -> lenN pre = r ->
  lenN S = (nb + 1) * B -> r + lenN t2 <= nb * B -> lenN t2 + 7 <= 7 * N.of_nat gofuel ->
  forall rr1 g rr fuel,
    at_pos S (rr_fr rr1) r -> gonext gofuel rr = gonext g rr1 ->
    lenN t2 + 7 <= 7 * N.of_nat g -> (length es2 + 1 <= fuel)%nat ->
    exists rrf, mem_read_fin fuel gofuel rr = (map MrEntry es2 ++ [MrEnd], rrf) /\
                at_posn S (rr_fr rrf) (ffp (r + lenN t2)).
Proof.
  intros Hes2 HS Hpre HlenS Hnb Hgf rr1 g rr fuel Hat Hgo Hg Hfuel.
  assert (Hok : stream_ok S) by (exists (nb + 1); exact HlenS).
  destruct fuel as [|fuel]; [lia|].
  destruct g as [|g]; [lia|].
  cbn [TornProofs.mem_read_fin]. rewrite Hgo.
  inversion Hes2 as [a0 Ha0 Hnil Ht2 | a0 p2 ps e2 k2 t2' He2 Hps Ha0 Hcons Ht2];
    subst a0 es2 t2.
  - (* nothing follows: end of the log *)
    cbn [app] in HS. rewrite (@lenN_nil byte), N.add_0_r in *.
    destruct (go_next_end_pos S pre z nb rr1 r g HS HlenS) as (fr' & Hend & Hp); [lia | lia | exact Hat |].
    rewrite Hend. eexists. split; [reflexivity|]. exact Hp.
  - destruct rr1 as [fr1 rbuf1 within1]. cbn [rr_fr] in Hat.
    rewrite <- !app_assoc in HS. rewrite lenN_app in *.
    pose proof (enc_rel_frames _ _ _ _ _ He2) as [Hk2 Hk2'].
    destruct (go_next_record r true p2 e2 k2 He2 S pre (t2' ++ zerosN z) fr1 rbuf1 within1
                (Datatypes.S g) Hok Hat HS Hpre)
      as (fr' & Hgo' & Hat'); [left; reflexivity | lia |].
    rewrite Hgo'. cbn [rr_buf app].
    cbn [length] in Hfuel.
    replace fuel with (length ps + Datatypes.S (fuel - length ps - 1))%nat by lia.
    destruct (read_all_entries_fin (r + lenN e2) ps t2' Hps S (pre ++ e2) (zerosN z)
                (mkRR fr' p2 false) gofuel (Datatypes.S (fuel - length ps - 1)) Hok Hat')
      as (rr' & Hat'' & Hrd).
    { rewrite HS, <- app_assoc. reflexivity. }
    { rewrite lenN_app. lia. }
    { lia. }
    rewrite Hrd.
    assert (Hgf1 : exists g1, gofuel = Datatypes.S g1) by (destruct gofuel; [lia | eauto]).
    destruct Hgf1 as [g1 ->].
    destruct (go_next_end_pos S (pre ++ e2 ++ t2') z nb rr' (r + lenN e2 + lenN t2') g1)
      as (fr'' & Hend & Hp).
    { rewrite HS, <- !app_assoc. reflexivity. }
    { exact HlenS. }
    { rewrite !lenN_app. lia. }
    { lia. }
    { exact Hat''. }
    cbn [TornProofs.mem_read_fin]. rewrite Hend. cbn [fst snd map].
    eexists. split; [reflexivity|]. cbn [rr_fr].
    replace (r + (lenN e2 + lenN t2')) with (r + lenN e2 + lenN t2') by lia. exact Hp.
Qed.

(* ---------- (3) reading from a block boundary ---------- *)
(* where a boundary kb*B lies with respect to a run es1 of entries whose first frames all
   start before it: at or after the end of the run, or inside the encoding of its last entry,
   at a frame boundary, the rest being a non-first continuation *)
Lemma boundary_cases a es1 t1 kb :
  encs_rel a es1 t1 -> a <= kb * B ->
  Forall (fun s => snd s < kb * B) (starts a es1) ->
  a + lenN t1 <= kb * B \/
  exists t1' e1 e2 p2 k2,
    t1 = t1' ++ e1 ++ e2 /\ a + lenN t1' + lenN e1 = kb * B /\
    enc_rel (kb * B) false p2 e2 k2.
Proof.
  intros Hes1 Ha Hall.
  induction es1 as [|x es1' _] using rev_ind.
  - left. inversion Hes1; subst. rewrite (@lenN_nil byte). lia.
  - destruct (encs_rel_app_inv es1' a [x] t1 Hes1) as (t1' & tx & -> & Hes1' & Hx).
    inversion Hx as [|a0 p0 ps0 ex k t'' Hex Hnil]; subst.
    inversion Hnil; subst. rewrite app_nil_r in *.
    rewrite starts_app in Hall. apply Forall_app in Hall as [_ Hlast].
    rewrite (cursor_after_rel _ _ _ Hes1') in Hlast. cbn [starts] in Hlast.
    inversion Hlast as [|s l Hs _]; subst. cbn [snd] in Hs.
    rewrite lenN_app.
    destruct (N.le_gt_cases (kb * B) (a + lenN t1' + lenN ex)) as [Hle|Hgt]; [|left; lia].
    destruct (enc_rel_split_at_block _ _ _ _ _ Hex kb Hs Hle)
      as [Hend | (e1 & e2 & p1 & p2 & k2 & He & Hl & _ & Hrel & _)].
    + left. lia.
    + right. exists t1', e1, e2, p2, k2. rewrite He. repeat split; [lia | exact Hrel].
Qed.

Lemma at_pos_boundary S kb : (kb + 1) * B <= lenN S -> at_pos S (rd_at S kb 0) (kb * B).
Proof. intros H. exists kb, 0. repeat split; try lia. Qed.

(* a reader positioned at an arbitrary cursor a inside the stream *)
Lemma at_pos_any S a nb : lenN S = (nb + 1) * B -> a <= nb * B ->
  at_pos S (rd_at S (a / B) (a mod B)) a.
Proof.
  intros HlenS Ha. pose proof (N.div_mod a B) as Hdm. pose proof (mod_lt_B a) as Hm.
  exists (a / B), (a mod B). repeat split; try lia.
Qed.

Theorem read_from_boundary_gen a es1 es2 t1 t2 S pre z nb kb buf0 fuel gofuel :
  encs_rel a es1 t1 -> encs_rel (a + lenN t1) es2 t2 ->
  S = pre ++ (t1 ++ t2) ++ zerosN z -> lenN pre = a ->
  lenN S = (nb + 1) * B -> a + lenN t1 + lenN t2 <= nb * B ->
  a <= kb * B -> kb <= nb ->
  Forall (fun s => snd s < kb * B) (starts a es1) ->
  (es2 <> [] -> kb * B <= ffp (a + lenN t1)) ->
  lenN t1 + lenN t2 + 7 <= 7 * N.of_nat gofuel -> (length es2 + 1 <= fuel)%nat ->
  exists rrf,
    mem_read_fin fuel gofuel (mkRR (rd_at S kb 0) buf0 false) = (map MrEntry es2 ++ [MrEnd], rrf) /\
    at_posn S (rr_fr rrf) (N.max (kb * B) (ffp (a + lenN t1 + lenN t2))).
Proof.
  intros Hes1 Hes2 HS Hpre HlenS Hnb Ha Hkb Hall Hsuf Hgf Hfuel.
  assert (Hok : stream_ok S) by (exists (nb + 1); exact HlenS).
  pose proof (mulB_le kb nb Hkb) as HkbB.
  assert (Hblk : (kb + 1) * B <= lenN S) by lia.
  pose proof (at_pos_boundary S kb Hblk) as Hat_b.
  destruct (boundary_cases a es1 t1 kb Hes1 Ha Hall)
    as [HA | (t1' & e1 & e2 & p2 & k2 & Ht1 & Hl & Hrel)].
  - (* the boundary is at or after the end of es1 *)
    destruct es2 as [|p ps].
    + (* nothing follows: only zeros from the boundary on *)
      inversion Hes2; subst t2. rewrite (@lenN_nil byte), N.add_0_r in *.
      destruct fuel as [|fuel]; [cbn [length] in Hfuel; lia|].
      destruct gofuel as [|g]; [lia|].
      destruct (go_next_end_pos S (pre ++ t1) z nb (mkRR (rd_at S kb 0) buf0 false) (kb * B) g)
        as (fr' & Hend & Hp).
      { rewrite HS, app_nil_r, <- app_assoc. reflexivity. }
      { exact HlenS. }
      { rewrite lenN_app. lia. }
      { exact HkbB. }
      { exact Hat_b. }
      cbn [TornProofs.mem_read_fin]. rewrite Hend. cbn [map app].
      eexists. split; [reflexivity|]. cbn [rr_fr].
      rewrite ffp_aligned in Hp.
      pose proof (ffp_le_boundary (a + lenN t1) kb HA) as Hf.
      replace (N.max (kb * B) (ffp (a + lenN t1))) with (kb * B) by lia. exact Hp.
    + (* the boundary is the first-frame position of the first entry of es2 *)
      set (a1 := a + lenN t1) in *.
      assert (Hb : kb * B = ffp a1) by (apply boundary_is_ffp; [exact HA | apply Hsuf; discriminate]).
      pose proof (at_pos_any S a1 nb HlenS) as Hat_a. specialize (Hat_a ltac:(lia)).
      set (fr_a := rd_at S (a1 / B) (a1 mod B)) in *.
      assert (Hrf : rframe fr_a = rframe (rd_at S kb 0)).
      { apply (at_pos_pad S fr_a a1 kb 0 Hok Hat_a); [unfold first_frame_pos in Hb; lia | lia | exact Hblk]. }
      destruct gofuel as [|g0]; [lia|].
      assert (Hlow : ffp a1 + 7 <= a1 + lenN t2).
      { inversion Hes2 as [|a0 p0 ps0 e k t' He Hrest]; subst.
        pose proof (enc_rel_ffp_lt _ _ _ _ _ He). rewrite lenN_app. lia. }
      destruct (read_tail_pos S a1 (p :: ps) t2 (pre ++ t1) z nb (Datatypes.S g0) Hes2)
        with (rr1 := mkRR fr_a buf0 false) (g := Datatypes.S g0)
             (rr := mkRR (rd_at S kb 0) buf0 false) (fuel := fuel) as (rrf & Hrd & Hp).
      { rewrite HS, <- !app_assoc. reflexivity. }
      { rewrite lenN_app. lia. }
      { exact HlenS. }
      { lia. }
      { lia. }
      { exact Hat_a. }
      { apply gonext_cong. symmetry. exact Hrf. }
      { lia. }
      { exact Hfuel. }
      exists rrf. split; [exact Hrd|].
      pose proof (ffp_ge (a1 + lenN t2)) as Hg.
      replace (N.max (kb * B) (ffp (a1 + lenN t2))) with (ffp (a1 + lenN t2)) by lia. exact Hp.
  - (* the boundary is inside the last entry of es1: skip the rest of its frames *)
    subst t1. rewrite !lenN_app in *.
    destruct (go_next_skip (kb * B) false p2 e2 k2 Hrel eq_refl S (pre ++ t1' ++ e1)
                (t2 ++ zerosN z) (rd_at S kb 0) Hok Hat_b) as (fr' & Hat' & Hskip).
    { rewrite HS, <- !app_assoc. reflexivity. }
    { rewrite !lenN_app. lia. }
    pose proof (enc_rel_frames _ _ _ _ _ Hrel) as [Hk2 _].
    destruct (read_tail_pos S (a + (lenN t1' + (lenN e1 + lenN e2))) es2 t2 (pre ++ t1' ++ e1 ++ e2)
                z nb gofuel Hes2)
      with (rr1 := mkRR fr' buf0 false) (g := (gofuel - k2)%nat)
           (rr := mkRR (rd_at S kb 0) buf0 false) (fuel := fuel) as (rrf & Hrd & Hp).
    { rewrite HS, <- !app_assoc. reflexivity. }
    { rewrite !lenN_app. lia. }
    { exact HlenS. }
    { lia. }
    { lia. }
    { cbn [rr_fr]. replace (a + (lenN t1' + (lenN e1 + lenN e2))) with (kb * B + lenN e2) by lia.
      exact Hat'. }
    { replace gofuel with (k2 + (gofuel - k2))%nat at 1 by lia. apply Hskip. }
    { lia. }
    { exact Hfuel. }
    exists rrf. split; [exact Hrd|].
    pose proof (ffp_ge (a + (lenN t1' + (lenN e1 + lenN e2)) + lenN t2)) as Hg.
    replace (N.max (kb * B) (ffp (a + (lenN t1' + (lenN e1 + lenN e2)) + lenN t2)))
      with (ffp (a + (lenN t1' + (lenN e1 + lenN e2)) + lenN t2)) by lia.
    exact Hp.
Qed.

(* (3) in the form of the plan: the whole stream from cursor 0 *)
Theorem read_from_boundary es1 es2 t S z nb kb buf0 fuel gofuel :
  encs_rel 0 (es1 ++ es2) t ->
  S = t ++ zerosN z -> lenN S = (nb + 1) * B -> lenN t <= nb * B -> kb <= nb ->
  Forall (fun s => snd s < kb * B) (starts 0 es1) ->
  Forall (fun s => kb * B <= snd s) (starts (cursor_after 0 es1) es2) ->
  lenN t + 7 <= 7 * N.of_nat gofuel -> (length es2 + 1 <= fuel)%nat ->
  exists rrf,
    mem_read_fin fuel gofuel (mkRR (rd_at S kb 0) buf0 false) = (map MrEntry es2 ++ [MrEnd], rrf) /\
    at_posn S (rr_fr rrf) (N.max (kb * B) (ffp (lenN t))).
Proof.
  intros Hes HS HlenS Hnb Hkb H1 H2 Hgf Hfuel.
  destruct (encs_rel_app_inv es1 0 es2 t Hes) as (t1 & t2 & -> & Hes1 & Hes2).
  rewrite lenN_app in *.
  rewrite (cursor_after_rel _ _ _ Hes1) in H2.
  apply (read_from_boundary_gen 0 es1 es2 t1 t2 S [] z nb kb buf0 fuel gofuel);
    try assumption; try reflexivity; try lia.
  intros Hne. destruct es2 as [|p ps]; [contradiction|].
  cbn [starts] in H2. inversion H2 as [|s l Hs _]; subst. exact Hs.
Qed.

Corollary read_from_boundary_all es1 es2 t S z nb kb buf0 fuel gofuel :
  encs_rel 0 (es1 ++ es2) t ->
  S = t ++ zerosN z -> lenN S = (nb + 1) * B -> lenN t <= nb * B -> kb <= nb ->
  Forall (fun s => snd s < kb * B) (starts 0 es1) ->
  Forall (fun s => kb * B <= snd s) (starts (cursor_after 0 es1) es2) ->
  lenN t + 7 <= 7 * N.of_nat gofuel -> (length es2 + 1 <= fuel)%nat ->
  mem_read_all P fuel gofuel (mkRR (rd_at S kb 0) buf0 false) = map MrEntry es2 ++ [MrEnd].
Proof.
  intros Hes HS HlenS Hnb Hkb H1 H2 Hgf Hfuel.
  destruct (read_from_boundary es1 es2 t S z nb kb buf0 fuel gofuel Hes HS HlenS Hnb Hkb H1 H2 Hgf Hfuel)
    as (rrf & Hrd & _).
  rewrite <- mem_read_fin_fst, Hrd. reflexivity.
Qed.

(* ---------- (4) delivered_from: the split is computed ---------- *)
Lemma skipped_delivered b es : forall a, es = skipped_before b a es ++ delivered_from b a es.
Proof.
  induction es as [|p ps IH]; intros a; cbn [skipped_before delivered_from].
  - reflexivity.
  - destruct (N.leb_spec b (ffp a)) as [Hle|Hgt]; [reflexivity|].
    cbn [app]. f_equal. apply IH.
Qed.

Lemma skipped_starts b es : forall a,
  Forall (fun s => snd s < b) (starts a (skipped_before b a es)).
Proof.
  induction es as [|p ps IH]; intros a; cbn [skipped_before].
  - constructor.
  - destruct (N.leb_spec b (ffp a)) as [Hle|Hgt]; [constructor|].
    cbn [starts]. constructor; [exact Hgt | apply IH].
Qed.

Lemma delivered_head b es : forall a,
  delivered_from b a es <> [] -> b <= ffp (cursor_after a (skipped_before b a es)).
Proof.
  induction es as [|p ps IH]; intros a; cbn [skipped_before delivered_from].
  - intros H. contradiction.
  - destruct (N.leb_spec b (ffp a)) as [Hle|Hgt].
    + intros _. rewrite cursor_after_nil. exact Hle.
    + intros H. rewrite cursor_after_cons. apply IH. exact H.
Qed.

(* every delivered entry has its first frame at or after b *)
Lemma delivered_starts b es : forall a,
  Forall (fun s => b <= snd s)
         (starts (cursor_after a (skipped_before b a es)) (delivered_from b a es)).
Proof.
  intros a. pose proof (delivered_head b es a) as Hh.
  set (c := cursor_after a (skipped_before b a es)) in *. clearbody c.
  destruct (delivered_from b a es) as [|p ps]; [constructor|].
  specialize (Hh ltac:(discriminate)).
  pose proof (starts_sorted (p :: ps) c) as Hs. cbn [starts] in *.
  inversion Hs as [|s l _ Hall]; subst.
  constructor; [exact Hh|]. eapply Forall_impl; [|exact Hall].
  cbn beta. cbn [snd]. intros s Hlt. lia.
Qed.

(* delivered_from is the filter "first frame at or after b" *)
Lemma filter_all_starts b ps : forall a,
  Forall (fun s => b <= snd s) (starts a ps) ->
  map fst (filter (fun x : bytes * (N * N) => b <=? snd (snd x)) (combine ps (starts a ps))) = ps.
Proof.
  induction ps as [|p ps IH]; intros a Hall; cbn [starts combine filter map].
  - reflexivity.
  - cbn [starts] in Hall. inversion Hall as [|s l Hs Hrest]; subst. cbn [snd] in *.
    destruct (N.leb_spec b (ffp a)) as [_|Hgt]; [|lia].
    cbn [map fst]. f_equal. apply IH. exact Hrest.
Qed.

Theorem delivered_from_filter b es : forall a,
  delivered_from b a es =
  map fst (filter (fun x : bytes * (N * N) => b <=? snd (snd x)) (combine es (starts a es))).
Proof.
  induction es as [|p ps IH]; intros a; cbn [delivered_from starts combine filter snd].
  - reflexivity.
  - destruct (N.leb_spec b (ffp a)) as [Hle|Hgt].
    + cbn [map fst]. f_equal. symmetry. apply filter_all_starts.
      pose proof (starts_sorted (p :: ps) a) as Hs. cbn [starts] in Hs.
      inversion Hs as [|s l _ Hall]; subst.
      eapply Forall_impl; [|exact Hall]. cbn beta. cbn [snd]. intros s Hlt. lia.
    + apply IH.
Qed.

Theorem read_delivered_from_gen a es t S pre z nb kb buf0 fuel gofuel :
  encs_rel a es t ->
  S = pre ++ t ++ zerosN z -> lenN pre = a ->
  lenN S = (nb + 1) * B -> a + lenN t <= nb * B -> a <= kb * B -> kb <= nb ->
  lenN t + 7 <= 7 * N.of_nat gofuel -> (length es + 1 <= fuel)%nat ->
  exists rrf,
    mem_read_fin fuel gofuel (mkRR (rd_at S kb 0) buf0 false) =
      (map MrEntry (delivered_from (kb * B) a es) ++ [MrEnd], rrf) /\
    at_posn S (rr_fr rrf) (N.max (kb * B) (ffp (a + lenN t))).
Proof.
  intros Hes HS Hpre HlenS Hnb Ha Hkb Hgf Hfuel.
  pose proof (skipped_delivered (kb * B) es a) as Hsplit.
  set (es1 := skipped_before (kb * B) a es) in *.
  set (es2 := delivered_from (kb * B) a es) in *.
  rewrite Hsplit in Hes.
  destruct (encs_rel_app_inv es1 a es2 t Hes) as (t1 & t2 & -> & Hes1 & Hes2).
  rewrite lenN_app in *.
  assert (Hlen : (length es2 <= length es)%nat).
  { rewrite Hsplit, app_length. lia. }
  replace (a + (lenN t1 + lenN t2)) with (a + lenN t1 + lenN t2) by lia.
  apply (read_from_boundary_gen a es1 es2 t1 t2 S pre z nb kb buf0 fuel gofuel);
    try assumption; try lia.
  - apply skipped_starts.
  - intros Hne. rewrite <- (cursor_after_rel _ _ _ Hes1). apply delivered_head. exact Hne.
Qed.

Theorem read_delivered_from es t S z nb kb buf0 fuel gofuel :
  encs_rel 0 es t ->
  S = t ++ zerosN z -> lenN S = (nb + 1) * B -> lenN t <= nb * B -> kb <= nb ->
  lenN t + 7 <= 7 * N.of_nat gofuel -> (length es + 1 <= fuel)%nat ->
  exists rrf,
    mem_read_fin fuel gofuel (mkRR (rd_at S kb 0) buf0 false) =
      (map MrEntry (delivered_from (kb * B) 0 es) ++ [MrEnd], rrf) /\
    at_posn S (rr_fr rrf) (N.max (kb * B) (ffp (lenN t))).
Proof.
  intros Hes HS HlenS Hnb Hkb Hgf Hfuel.
  apply (read_delivered_from_gen 0 es t S [] z nb kb buf0 fuel gofuel);
    try assumption; try reflexivity; lia.
Qed.

Corollary read_delivered_from_all es t S z nb kb buf0 fuel gofuel :
  encs_rel 0 es t ->
  S = t ++ zerosN z -> lenN S = (nb + 1) * B -> lenN t <= nb * B -> kb <= nb ->
  lenN t + 7 <= 7 * N.of_nat gofuel -> (length es + 1 <= fuel)%nat ->
  mem_read_all P fuel gofuel (mkRR (rd_at S kb 0) buf0 false) =
    map MrEntry (delivered_from (kb * B) 0 es) ++ [MrEnd].
Proof.
  intros Hes HS HlenS Hnb Hkb Hgf Hfuel.
  destruct (read_delivered_from es t S z nb kb buf0 fuel gofuel Hes HS HlenS Hnb Hkb Hgf Hfuel)
    as (rrf & Hrd & _).
  rewrite <- mem_read_fin_fst, Hrd. reflexivity.
Qed.

(* the same on the stream mem_stream builds (written bytes zero-padded to whole blocks, plus
   one block), with the fuel mem_roundtrip / mem_read_stream give themselves *)
Corollary read_delivered_from_stream es t kb buf0 :
  encs_rel 0 es t -> (kb + 1) * B <= lenN (mem_stream P t) ->
  let S := mem_stream P t in
  let fuel := N.to_nat (lenN S / HEADER_LEN + lenN S / B + 4) in
  mem_read_all P fuel fuel (mkRR (rd_at S kb 0) buf0 false) =
    map MrEntry (delivered_from (kb * B) 0 es) ++ [MrEnd].
Proof.
  intros Hes Hkb S fuel.
  destruct (H3 StreamProofs.mem_stream_shape t) as (z & nb & Hshape & HlenS & Hnb).
  fold S in Hshape, HlenS, Hkb.
  pose proof (H3 DamageProofs.stream_fuel_ok t) as Hf. fold S in Hf. fold fuel in Hf.
  pose proof (encs_rel_len _ _ _ Hes) as Hcount.
  apply (read_delivered_from_all es t S z nb kb buf0 fuel fuel Hes Hshape HlenS Hnb).
  - apply mulB_le_inv. lia.
  - exact Hf.
  - lia.
Qed.

(* ---------- cursor normalisation (writer restarted at the first-frame position) ---------- *)
(* a writer restarted at first_frame_pos a (the padding pad_of a being already in the stream as
   zeros) emits the same bytes as the one at a, minus that padding *)
Lemma ffp_mod a : exists k' c', ffp a = k' * B + c' /\ c' + 7 <= B /\ ffp a mod B = c' /\
                                max_writable P (B - a mod B) = B - c' - 7.
Proof.
  unfold first_frame_pos.
  destruct (pad_geom a) as (k' & c' & Hp & Hc' & Hmw & _).
  exists k', c'. repeat split; try assumption. rewrite Hp. apply mod_kc. lia.
Qed.

Lemma pad_of_ffp a : pad_of (ffp a) = [].
Proof.
  destruct (ffp_mod a) as (k' & c' & _ & Hc' & Hm & _).
  unfold StreamProofs.pad_of. rewrite Hm.
  destruct (N.ltb_spec (B - c') 7) as [Hlt|_]; [lia | reflexivity].
Qed.

Lemma ffp_idem a : ffp (ffp a) = ffp a.
Proof. unfold first_frame_pos at 1. rewrite pad_of_ffp, (@lenN_nil byte). lia. Qed.

Lemma chunk_of_ffp a p : chunk_of (ffp a) p = chunk_of a p.
Proof.
  destruct (ffp_mod a) as (k' & c' & _ & Hc' & Hm & Hmw).
  unfold StreamProofs.chunk_of. rewrite Hm, Hmw, max_writable_eq.
  destruct (N.leb_spec 7 (B - c')) as [_|Hlt]; [reflexivity | lia].
Qed.

Lemma pad_of_zeros a : pad_of a = zerosN (ffp a - a).
Proof.
  unfold first_frame_pos. rewrite lenN_pad_of. unfold StreamProofs.pad_of.
  destruct (N.ltb_spec (B - a mod B) 7) as [Hlt|Hge].
  - f_equal. lia.
  - replace (a + 0 - a) with 0 by lia. reflexivity.
Qed.

Lemma enc_rel_ffp a f p e k : enc_rel (ffp a) f p e k -> enc_rel a f p (pad_of a ++ e) k.
Proof.
  intros H. remember (ffp a) as a' eqn:Ea'.
  destruct H as [a' f p Hd | a' f p e k Hd Hr]; subst a'.
  - rewrite chunk_of_ffp in *. rewrite pad_of_ffp. cbn [app]. apply ER_last. exact Hd.
  - rewrite chunk_of_ffp in *. rewrite pad_of_ffp in *. cbn [app]. apply ER_more; [exact Hd|].
    rewrite (@lenN_nil byte) in Hr. unfold first_frame_pos in Hr.
    replace (a + lenN (pad_of a) + 0 + 7 + chunk_of a p)
      with (a + lenN (pad_of a) + 7 + chunk_of a p) in Hr by lia.
    exact Hr.
Qed.

Lemma enc_rel_ffp_inv a f p e k :
  enc_rel a f p e k -> exists e', e = pad_of a ++ e' /\ enc_rel (ffp a) f p e' k.
Proof.
  intros H. destruct H as [a f p Hd | a f p e k Hd Hr].
  - eexists. split; [reflexivity|].
    rewrite <- (chunk_of_ffp a p) in *.
    pose proof (ER_last P (ffp a) f p Hd) as H'. rewrite pad_of_ffp in H'. exact H'.
  - eexists. split; [reflexivity|].
    rewrite <- (chunk_of_ffp a p) in *.
    assert (Hr' : enc_rel (ffp a + lenN (pad_of (ffp a)) + 7 + chunk_of (ffp a) p) false
                    (dropN (chunk_of (ffp a) p) p) e k).
    { rewrite pad_of_ffp, (@lenN_nil byte). unfold first_frame_pos at 1.
      replace (a + lenN (pad_of a) + 0 + 7 + chunk_of (ffp a) p)
        with (a + lenN (pad_of a) + 7 + chunk_of (ffp a) p) by lia.
      exact Hr. }
    pose proof (ER_more P (ffp a) f p e k Hd Hr') as H'. rewrite pad_of_ffp in H'. exact H'.
Qed.

Lemma enc_of_ffp_eq a p : enc_of a p = pad_of a ++ enc_of (ffp a) p.
Proof.
  destruct (enc_of_rel (ffp a) p) as [k Hk].
  apply (enc_rel_enc_of a p _ k). apply enc_rel_ffp. exact Hk.
Qed.

(* consequently the list of first-frame positions does not depend on whether the writer
   started an entry at a or at first_frame_pos a *)
Lemma encs_of_ffp_eq a es : es <> [] -> encs_of a es = pad_of a ++ encs_of (ffp a) es.
Proof.
  destruct es as [|p ps]; [contradiction|]. intros _. cbn [encs_of].
  rewrite (enc_of_ffp_eq a p), <- app_assoc. do 2 f_equal.
  rewrite lenN_app. unfold first_frame_pos. f_equal. lia.
Qed.

Lemma next_cursor_ffp a p : ffp a + lenN (enc_of (ffp a) p) = a + lenN (enc_of a p).
Proof. rewrite (enc_of_ffp_eq a p), lenN_app. unfold first_frame_pos. lia. Qed.

Lemma delivered_from_ffp b a es : delivered_from b (ffp a) es = delivered_from b a es.
Proof.
  destruct es as [|p ps]; [reflexivity|]. cbn [delivered_from].
  rewrite ffp_idem, next_cursor_ffp. reflexivity.
Qed.

Lemma starts_ffp a es : map snd (starts (ffp a) es) = map snd (starts a es).
Proof.
  destruct es as [|p ps]; [reflexivity|]. cbn [starts map snd].
  rewrite ffp_idem, next_cursor_ffp. reflexivity.
Qed.

(* unfolding starts / delivered_from along a relational encoding *)
Lemma starts_cons_rel a p ps e k :
  enc_rel a true p e k -> starts a (p :: ps) = (a, ffp a) :: starts (a + lenN e) ps.
Proof. intros H. cbn [starts]. now rewrite (enc_rel_enc_of _ _ _ _ H). Qed.

Lemma delivered_from_cons_rel b a p ps e k :
  enc_rel a true p e k ->
  delivered_from b a (p :: ps) = if b <=? ffp a then p :: ps else delivered_from b (a + lenN e) ps.
Proof. intros H. cbn [delivered_from]. now rewrite (enc_rel_enc_of _ _ _ _ H). Qed.

End Resync.

Print Assumptions enc_rel_split_at_boundary.
Print Assumptions read_from_boundary_gen.
Print Assumptions read_from_boundary.
Print Assumptions read_from_boundary_all.
Print Assumptions delivered_from_filter.
Print Assumptions read_delivered_from_gen.
Print Assumptions read_delivered_from.
Print Assumptions read_delivered_from_stream.
Print Assumptions enc_of_ffp_eq.
