(* Spec.v — the sequential queue-map specification (property C05), meant to be read in minutes.
   A log is a finite map from queue name to (retained records in order, next position). *)
From MRL Require Import Bytes Mem.

Definition squeue : Type := list (N * bytes) * N.          (* records (position, payload), next *)
Definition smap := list (bytes * squeue).                  (* association list, no duplicate keys *)

Fixpoint s_get (m : smap) (q : bytes) : option squeue :=
  match m with
  | [] => None
  | (n, v) :: r => if bytes_eqb n q then Some v else s_get r q
  end.
Fixpoint s_remove (m : smap) (q : bytes) : smap :=
  match m with
  | [] => []
  | (n, v) :: r => if bytes_eqb n q then s_remove r q else (n, v) :: s_remove r q
  end.
Fixpoint s_put (m : smap) (q : bytes) (v : squeue) : smap :=
  match m with
  | [] => [(q, v)]
  | (n, v0) :: r => if bytes_eqb n q then (n, v) :: r else (n, v0) :: s_put r q v
  end.

Inductive sout :=
| SOk                                   (* create / delete / persist *)
| SAppended (last : option N)           (* Some last position, or None for an acknowledged no-op *)
| STruncated (evicted : N)
| SAlreadyExists | SMissing | SPast.

Inductive sop :=
| SCreate (q : bytes)
| SDelete (q : bytes)
| SAppend (q : bytes) (pos : option N) (payloads : list bytes)
| STruncate (q : bytes) (p : N)
| SPersist.

Fixpoint s_number (p : N) (payloads : list bytes) : list (N * bytes) :=
  match payloads with [] => [] | x :: r => (p, x) :: s_number (p + 1) r end.

Definition s_step (m : smap) (o : sop) : smap * sout :=
  match o with
  | SCreate q =>
      match s_get m q with
      | Some _ => (m, SAlreadyExists)
      | None => (s_put m q ([], 0), SOk)
      end
  | SDelete q =>
      match s_get m q with
      | None => (m, SMissing)
      | Some _ => (s_remove m q, SOk)
      end
  | SAppend q pos payloads =>
      match s_get m q with
      | None => (m, SMissing)
      | Some (recs, next) =>
          match pos with
          | Some p =>
              if p + 1 =? next then (m, SAppended None)            (* retry of the last position *)
              else if p <? next then (m, SPast)
              else match payloads with
                   | [] => (m, SAppended None)
                   | _ => (s_put m q (recs ++ s_number p payloads, p + lenN payloads),
                           SAppended (Some (p + lenN payloads - 1)))
                   end
          | None =>
              match payloads with
              | [] => (m, SAppended None)
              | _ => (s_put m q (recs ++ s_number next payloads, next + lenN payloads),
                      SAppended (Some (next + lenN payloads - 1)))
              end
          end
      end
  | STruncate q p =>
      match s_get m q with
      | None => (m, SMissing)
      | Some (recs, next) =>
          let kept := filter (fun r => p <? fst r) recs in
          let next' := if isnil kept && (next <=? p + 1) then p + 1 else next in
          (s_put m q (kept, next'), STruncated (lenN recs - lenN kept))
      end
  | SPersist => (m, SOk)
  end.

(* reads *)
Definition s_range (m : smap) (q : bytes) (lo hi : bound) : option (list (N * bytes)) :=
  match s_get m q with
  | Some (recs, _) => Some (filter (fun r => in_bounds lo hi (fst r)) recs)
  | None => None
  end.
Definition s_last_position (m : smap) (q : bytes) : option (option N) :=
  match s_get m q with
  | Some (_, next) => Some (if next =? 0 then None else Some (next - 1))
  | None => None
  end.
Definition s_last_record (m : smap) (q : bytes) : option (option (N * bytes)) :=
  match s_get m q with
  | Some (recs, _) => Some (last_opt recs)
  | None => None
  end.
