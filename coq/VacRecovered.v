(* VacRecovered.v — vacuity audit of CrashRecovered.crash_recovered_usable (TASK T14).
   (1) ALL premises (crash_setting and the section hypotheses, including no_zero_collision) are
       jointly satisfiable: params P_sat 32 8 of NzcVacuous (a checksum for which
       no_zero_collision holds), history create qa; append; then the interrupted call append.
       The theorem is applied to this instance.
   (2) With the REAL CRC-32 (BS = 32, NB = 8) the conclusion is checked by computation on every
       crash image of that call: recover, run a continuation (append, create, truncate with GC),
       restart, compare the abstract states. Some of the images contain junk (torn frames). *)
From Coq Require Import Lia ZArith ZifyN ZifyNat ZifyBool List.
From MRL Require Import Bytes BytesProofs Params Names Frame Record Mem Spec Rolling Log Driver Hist
  WriterProofs SpecRefine RecordProofs StreamProofs ResyncProofs GhostLog ReplaySpec TornProofs
  RestartInv RestartWrite RestartStep OpenReplay RestartFinal CrashTrace CrashAtomic NzcVacuous
  VacBase VacCrash CrashRecovered.
Import ListNotations.
Import CrashAtomic.CrashExample.

Arguments N.add : simpl never.
Arguments N.sub : simpl never.
Arguments N.mul : simpl never.
Arguments N.eqb : simpl never.
Arguments N.ltb : simpl never.
Arguments N.leb : simpl never.
Arguments N.div : simpl never.
Arguments N.modulo : simpl never.

(* ====================================================================== *)
(* (1) all premises are jointly satisfiable                               *)
(* ====================================================================== *)
Definition Pv : params := P_sat 32 8.
Lemma Pv_BS_lo : 7 < BS Pv. Proof. reflexivity. Qed.
Lemma Pv_BS_hi : BS Pv <= 65542. Proof. intros H; discriminate H. Qed.
Lemma Pv_NB : 1 <= NB Pv. Proof. intros H; discriminate H. Qed.
Lemma Pv_crc : forall t p, crcf Pv t p < 2 ^ 32. Proof. exact crc_sat_lt. Qed.
Lemma Pv_nzc : no_zero_collision Pv. Proof. apply nzc_P_sat. intros H; discriminate H. Qed.

Definition h1 : list hop :=
  [HCall (OCreate qa) false; HCall (OAppend qa None [pay "x"%byte]) false].
Definition sv0 : state :=
  Eval vm_compute in match open Pv [] None (PAlways true) [] with OpenOk s => s | _ => st_dummy end.
Definition sv_a : state :=
  Eval vm_compute in match hrun Pv sv0 h1 with Some (s, _) => s | None => st_dummy end.
Definition outs_a : list outcome :=
  Eval vm_compute in match hrun Pv sv0 h1 with Some (_, o) => o | None => [] end.
Definition o_v : op := OAppend qa None [pay "y"%byte].
Definition sv_b : state := Eval vm_compute in fst (step Pv sv_a o_v false).
Definition out_b : outcome := Eval vm_compute in snd (step Pv sv_a o_v false).

Lemma open_sv0 : open Pv [] None (PAlways true) [] = OpenOk sv0.
Proof. vm_compute. reflexivity. Qed.
Lemma hrun_a : hrun Pv sv0 h1 = Some (sv_a, outs_a).
Proof. vm_compute. reflexivity. Qed.
Lemma step_b : step Pv sv_a o_v false = (sv_b, out_b).
Proof. vm_compute. reflexivity. Qed.

Ltac wf_tacv :=
  cbn [op_wf_strict];
  repeat match goal with
         | |- _ /\ _ => split
         | |- Forall _ _ => repeat constructor
         | |- name_ok _ => split; vm_compute; reflexivity
         | |- forall m, qs_get _ _ = Some m -> _ =>
             let m := fresh "m" in let H := fresh "H" in
             intros m H; vm_compute in H; injection H as <-; vm_compute; reflexivity
         | |- _ < _ => vm_compute; reflexivity
         | |- True => exact I
         end.
Ltac le_tacv := vm_compute; let H := fresh in intro H; discriminate H.
Ltac call_tacv := eapply hist_ok_call; [vm_compute; reflexivity | wf_tacv | unfold phys_bound; le_tacv | ].

Lemma hist_ok_a : hist_ok Pv sv0 h1.
Proof. unfold h1. call_tacv. call_tacv. exact I. Qed.

Lemma inv_a : exists G, Inv Pv sv_a G.
Proof.
  pose proof (inv_fresh Pv Pv_BS_lo Pv_BS_hi Pv_NB (PAlways true) sv0 open_sv0) as HI0.
  destruct (hrun_inv Pv Pv_BS_lo Pv_BS_hi Pv_NB Pv_crc eq_refl eq_refl h1 sv0 gh_fresh HI0 hist_ok_a)
    as (st' & outs & G & Er & HI & _).
  rewrite hrun_a in Er. injection Er as <- <-. now exists G.
Qed.

Example setting_shape :
  w_files (s_wr sv_a) = [0] /\ w_off (s_wr sv_a) = 74 /\ w_off (s_wr sv_b) = 122 /\
  FILE_BYTES Pv = 256 /\ w_file (s_wr sv_b) = 0.
Proof. vm_compute. repeat split; reflexivity. Qed.

Theorem crash_setting_satisfiable : exists G, crash_setting Pv sv_a G true o_v false sv_b out_b.
Proof.
  destruct inv_a as (G & HI). exists G.
  assert (Hb1 : crash_phys_bound Pv (s_wr sv_a) (map snd (step_log Pv sv_a o_v)) (abs_qs (s_qs sv_a))).
  { apply (crash_phys_bound_by Pv Pv_BS_lo Pv_BS_hi Pv_NB Pv_crc 64); [vm_compute; reflexivity|le_tacv]. }
  assert (Hb2 : crash_phys_bound Pv (s_wr sv_a) (map snd (step_log Pv sv_a o_v)) (abs_qs (s_qs sv_b))).
  { apply (crash_phys_bound_by Pv Pv_BS_lo Pv_BS_hi Pv_NB Pv_crc 64); [vm_compute; reflexivity|le_tacv]. }
  pose proof (crash_phys_bound_ghost Pv Pv_BS_lo Pv_BS_hi Pv_NB Pv_crc _ G _ _ (proj1 HI) Hb1) as Hc1.
  pose proof (crash_phys_bound_ghost Pv Pv_BS_lo Pv_BS_hi Pv_NB Pv_crc _ G _ _ (proj1 HI) Hb2) as Hc2.
  split; [exact HI|]. split; [reflexivity|]. split; [reflexivity|].
  split; [unfold o_v; wf_tacv|].
  split; [exact (crash_bound_stream_bound Pv Pv_BS_lo Pv_BS_hi Pv_NB Pv_crc _ _ _ Hc1)|].
  split; [exact Hc1|]. split; [exact Hc2|]. split; [exact step_b|].
  split; [intros e H; discriminate H|].
  split; [reflexivity|]. le_tacv.
Qed.

(* the theorem applies: its conclusion for this instance *)
Theorem crash_recovered_usable_inst :
  exists evs, c_ev (w_ctx (s_wr sv_b)) = rev evs ++ c_ev (w_ctx (s_wr sv_a)) /\
    forall cut k pol hint,
      exists st_r,
        open Pv (fold_left apply_event (crash_events evs cut k) (c_fs (w_ctx (s_wr sv_a)))) None pol hint
          = OpenOk st_r /\
        forall h2 st2 outs2, hrun Pv st_r h2 = Some (st2, outs2) -> hist_ok Pv st_r h2 ->
          restart_bound Pv st2 ->
          forall pol2 hint2, exists st3,
            restart Pv st2 pol2 hint2 = OpenOk st3 /\
            (forall q, s_get (abs_qs (s_qs st3)) q = s_get (abs_qs (s_qs st2)) q).
Proof.
  destruct crash_setting_satisfiable as (G & Hset).
  destruct (crash_recovered_usable Pv Pv_BS_lo Pv_BS_hi Pv_NB Pv_crc eq_refl eq_refl eq_refl Pv_nzc
              sv_a G true o_v false sv_b out_b Hset) as (evs & Hev & Hall).
  exists evs. split; [exact Hev|]. intros cut k pol hint.
  destruct (Hall cut k pol hint) as (st_r & Hopen & _ & _ & Hres).
  exists st_r. split; [exact Hopen|exact Hres].
Qed.

(* ====================================================================== *)
(* (2) the real CRC-32: the conclusion checked on every crash image       *)
(* ====================================================================== *)
Definition Pr : params := mkParams 32 8 Crc.crc32 0 false false false.
Definition sr0 : state :=
  Eval vm_compute in match open Pr [] None (PAlways true) [] with OpenOk s => s | _ => st_dummy end.
Definition sr_a : state :=
  Eval vm_compute in match hrun Pr sr0 h1 with Some (s, _) => s | None => st_dummy end.
Definition sr_b : state := Eval vm_compute in fst (step Pr sr_a o_v false).

(* the continuation after recovery: an append, a create, a truncate that empties qa (its GC
   may write position entries), then a restart *)
Definition h2 : list hop :=
  [HCall (OAppend qa None [pay "z"%byte; pay "z"%byte; pay "z"%byte]) false;
   HCall (OCreate qb) false;
   HCall (OAppend qb None [pay "w"%byte; pay "w"%byte; pay "w"%byte; pay "w"%byte]) false;
   HCall (OTruncate qa 100 [qb]) false].

(* 1 = recovery ok, continuation ok, restart ok and abstractly the identity; 0 = anything else;
   second component: the image holds a proper non-empty prefix of the two data writes of the
   call (a torn frame, or the complete First frame without its Last frame), i.e. junk that the
   recovery skips: the recovered writer resumes at offset 96 or 128, not at 74 / 122 *)
Definition usable_verdict (evs : list event) (ck : N * N) : N * bool :=
  let img := fold_left apply_event (crash_events evs (fst ck) (snd ck)) (c_fs (w_ctx (s_wr sr_a))) in
  match open Pr img None (PAlways true) [] with
  | OpenOk st_r =>
      let junk := ((fst ck =? 0) && (0 <? snd ck)) || (fst ck =? 1) in
      match hrun Pr st_r h2 with
      | Some (st2, _) =>
          match restart Pr st2 (PAlways true) [] with
          | OpenOk st3 =>
              (if smap_ext_eqb (abs_qs (s_qs st3)) (abs_qs (s_qs st2)) then 1 else 0, junk)
          | _ => (0, junk)
          end
      | None => (0, junk)
      end
  | _ => (0, false)
  end.

Definition usable_census : N * N * N :=
  let evs := new_events sr_a sr_b in
  let vs := map (usable_verdict evs) (crash_points evs) in
  (lenN vs, lenN (filter (fun v => fst v =? 1) vs), lenN (filter (fun v => snd v) vs)).

(* (crash images, images for which recovery + continuation + restart is the identity,
    images with junk) *)
Example usable_census_ex : usable_census = (52, 52, 47).
Proof. vm_compute. reflexivity. Qed.

Print Assumptions crash_setting_satisfiable.
Print Assumptions crash_recovered_usable_inst.
