(* JRecoverS5.v — TASK T14 follow-up (gap): the stream of a crash image whose torn data end EXACTLY at
   the end of the image stream (the cut completes the last file and its successor does not exist).
   Same conclusion as JRecoverS4.crash_stream_preK2.  What is present of a torn entry is either
   nothing but pad zeros, or a run of complete frames ending at the block boundary (KGap). *)
From Coq Require Import Lia ZArith ZifyN ZifyNat ZifyBool List Sorted.
From MRL Require Import Bytes BytesProofs Params Frame Driver StreamProofs DamageProofs TornProofs
  ResyncProofs OpenTerm OpenReplay TornFile JunkStream JRecoverS JRecoverS2 KTail KAlign KGap
  KWalk KJunk JRecoverS4.

Arguments N.add : simpl never.
Arguments N.sub : simpl never.
Arguments N.mul : simpl never.
Arguments N.eqb : simpl never.
Arguments N.ltb : simpl never.
Arguments N.leb : simpl never.
Arguments N.div : simpl never.
Arguments N.modulo : simpl never.
Arguments N.min : simpl never.
Arguments N.max : simpl never.

Section RecoverS5.
Variable P : params.
Hypothesis HBS_lo : 7 < BS P.
Hypothesis HBS_hi : BS P <= 65542.
Hypothesis Hcrc : forall t p, crcf P t p < 2 ^ 32.

Local Notation B := (BS P).
Local Notation ffp := (first_frame_pos P).
Local Notation encof := (enc_of P).
Local Notation encsof := (encs_of P).
Local Notation starts := (starts P).
Local Notation H3 f := (f P HBS_lo HBS_hi Hcrc) (only parsing).
Local Notation H2 f := (f P HBS_lo HBS_hi) (only parsing).
Local Notation pre_cont := (pre_cont P).

(* an encoding starts with its pad zeros *)
Lemma enc_rel_take_pad a f p e k j :
  enc_rel P a f p e k -> j <= lenN (pad_of P a) -> takeN j e = zerosN j.
Proof.
  intros He Hj.
  assert (Hpad : takeN j (pad_of P a) = zerosN j).
  { unfold pad_of in *. destruct (B - a mod B <? 7).
    - rewrite lenN_zerosN in Hj. apply FileStream.takeN_zerosN. exact Hj.
    - rewrite (@lenN_nil byte) in Hj. replace j with 0 by lia. reflexivity. }
  destruct He; rewrite takeN_app_le by exact Hj; exact Hpad.
Qed.

Theorem crash_stream_preG PRE0 ops0 opos0 adm0 cmax0 rm0 (es_new : list bytes) c0 xs j z (S_all : bytes) :
  pre_cont PRE0 ops0 opos0 adm0 cmax0 rm0 -> rm0 <= 7 ->
  let a0 := lenN PRE0 in
  let T := PRE0 ++ encsof a0 es_new in
  lenN T <= c0 -> c0 <= ffp (lenN T) -> j <= lenN (encsof c0 xs) ->
  S_all = T ++ zerosN (c0 - lenN T) ++ takeN j (encsof c0 xs) ++ zerosN z ->
  stream_ok P S_all ->
  c0 + j = lenN S_all -> lenN PRE0 + rm0 <= lenN S_all ->
  exists xs_d xs_r PRE cmax rm zz,
    xs = xs_d ++ xs_r /\
    pre_cont PRE (ops0 ++ es_new ++ xs_d) (opos0 ++ starts a0 (es_new ++ xs_d)) adm0 cmax rm /\
    S_all = PRE ++ zerosN zz /\ lenN PRE + rm <= lenN S_all /\
    (cmax <= Datatypes.S cmax0)%nat /\ rm <= 7 /\
    (forall m, m * B <= c0 + j -> m * B <= ffp (lenN PRE)) /\
    lenN T <= lenN PRE /\ c0 <= ffp (lenN PRE) /\
    a0 + lenN (encsof a0 (es_new ++ xs_d)) <= lenN PRE /\
    lenN PRE <= a0 + lenN (encsof a0 (es_new ++ xs)) + B /\
    (xs_r <> [] -> j < lenN (encsof c0 xs)).
Proof.
  intros Hpc0 Hrm0 a0 T Hlo Hhi Hj HS Hok Hend0 Hroom0.
  set (t0 := encsof a0 es_new) in *.
  assert (HlT : lenN T = a0 + lenN t0) by (unfold T; rewrite lenN_app; reflexivity).
  rewrite HlT in *.
  assert (HSb : S_all = PRE0 ++ (t0 ++ zerosN (c0 - (a0 + lenN t0)) ++ takeN j (encsof c0 xs)) ++ zerosN z).
  { rewrite HS. unfold T. rewrite <- !app_assoc. reflexivity. }
  assert (Etot : xs <> [] -> a0 + lenN (encsof a0 (es_new ++ xs)) = c0 + lenN (encsof c0 xs)).
  { intros Hne. rewrite (H3 encs_of_app). fold t0.
    rewrite (encs_of_shift P HBS_lo HBS_hi Hcrc (a0 + lenN t0) c0 xs Hlo Hhi Hne).
    rewrite !lenN_app, lenN_zerosN. lia. }
  assert (Hclean : forall es rm', rm0 <= lenN (encsof a0 es) + rm' ->
            pre_cont (PRE0 ++ encsof a0 es) (ops0 ++ es) (opos0 ++ starts a0 es) adm0 cmax0 rm').
  { intros es rm' Hr.
    exact (pre_cont_clean P HBS_lo HBS_hi Hcrc PRE0 ops0 opos0 adm0 cmax0 rm0 es (encsof a0 es) rm'
             Hpc0 (H3 encs_of_rel es a0) Hr). }
  destruct (torn_normal_from P HBS_lo HBS_hi Hcrc a0 t0 c0 es_new xs j (H3 encs_of_rel es_new a0) Hlo Hhi Hj)
    as [(Hend & z0 & Hbody & Hne & Hnil')
       | (xs1 & x & xs2 & j' & Hxs & Hj' & Hbody & Hcj & Hle & Hlt & Hlen & HTt & Htc & Hct)].
  - (* nothing is torn *)
    set (t := encsof a0 (es_new ++ xs)) in *.
    assert (HS' : S_all = (PRE0 ++ t) ++ zerosN (z0 + z)).
    { rewrite HSb, Hbody, <- !app_assoc, (FileStream.zerosN_app z0 z). reflexivity. }
    assert (HlS : lenN S_all = a0 + lenN t + (z0 + z)).
    { rewrite HS', !lenN_app, lenN_zerosN. fold a0. lia. }
    assert (Hlt_le : lenN t0 <= lenN t /\ a0 + lenN t <= c0 + lenN (encsof c0 xs)).
    { destruct xs as [|x0 X0].
      - specialize (Hnil' eq_refl). unfold t. rewrite app_nil_r. fold t0.
        cbn [ResyncProofs.encs_of]. rewrite (@lenN_nil byte). lia.
      - destruct (Hne ltac:(discriminate)) as [_ Hl]. fold t in Hl.
        split; [|lia]. unfold t. rewrite (H3 encs_of_app), lenN_app. fold t0. lia. }
    exists xs, [], (PRE0 ++ t), cmax0, (rm0 - lenN t), (z0 + z).
    split; [now rewrite app_nil_r|]. split; [apply Hclean; fold t; lia|]. split; [exact HS'|].
    rewrite lenN_app. fold a0.
    pose proof (ffp_mono P HBS_lo HBS_hi (a0 + lenN t0) (a0 + lenN t) ltac:(lia)) as Hm0.
    pose proof (H2 ffp_ge (a0 + lenN t)) as Hge0.
    split; [fold a0 in Hroom0; lia|]. split; [lia|]. split; [lia|].
    split.
    { intros m Hm. destruct xs as [|x0 X0].
      - cbn [ResyncProofs.encs_of] in Hend. rewrite (@lenN_nil byte) in Hend. lia.
      - destruct (Hne ltac:(discriminate)) as [_ Hl]. fold t in Hl. lia. }
    split; [lia|].
    split; [lia|].
    split; [fold t; lia|]. split; [fold t; lia|]. intros H; now destruct H.
  - cbv zeta in *.
    set (t := encsof a0 (es_new ++ xs1)) in *.
    set (a := a0 + lenN t) in *.
    set (e := encof a x) in *.
    set (ex := encof (c0 + lenN (encsof c0 xs1)) x) in *.
    assert (HS' : S_all = (PRE0 ++ t) ++ takeN j' e ++ zerosN z).
    { rewrite HSb, Hbody, <- !app_assoc. reflexivity. }
    assert (HlP : lenN (PRE0 ++ t) = a) by (rewrite lenN_app; reflexivity).
    assert (HlS : lenN S_all = a + j' + z).
    { rewrite HS', !lenN_app, lenN_takeN, lenN_zerosN. fold a0. unfold a. lia. }
    assert (Hxslen : lenN (encsof c0 xs) =
              lenN (encsof c0 xs1) + lenN ex + lenN (encsof (c0 + lenN (encsof c0 xs1) + lenN ex) xs2)).
    { rewrite Hxs, (H3 encs_of_app), lenN_app. cbn [ResyncProofs.encs_of]. rewrite lenN_app.
      fold ex. lia. }
    assert (Hz0 : z = 0) by lia.
    assert (Hxne : xs <> []) by (rewrite Hxs; destruct xs1; discriminate).
    specialize (Etot Hxne).
    pose proof (ffp_mono P HBS_lo HBS_hi (a0 + lenN t0) a ltac:(unfold a; lia)) as Hmono.
    destruct (H3 enc_of_rel a x) as [k0 Hk0]. fold e in Hk0.
    destruct Hok as [ms Hms].
    assert (Haj : a + j' = ms * B) by lia.
    destruct (N.lt_ge_cases (ffp a) (ms * B)) as [Hin|Hout].
    + (* some complete frames of x are there, up to the end of the stream *)
      pose proof (pjunk_of_aligned P HBS_lo HBS_hi Hcrc a x e k0 j' ms Hk0 Hj' Haj Hin) as Hpj.
      pose proof Hpj as (Har & HlW & _).
      rewrite <- HlP in Hpj.
      pose proof (pre_cont_pjunk P HBS_lo HBS_hi Hcrc (PRE0 ++ t) (ops0 ++ es_new ++ xs1)
                    (opos0 ++ starts a0 (es_new ++ xs1)) adm0 cmax0 rm0 (ms * B) (takeN j' e)
                    (Hclean (es_new ++ xs1) rm0 ltac:(lia)) Hpj Hrm0) as Hpc.
      assert (HlPRE : lenN ((PRE0 ++ t) ++ takeN j' e) = ms * B) by (rewrite lenN_app, HlP; lia).
      exists xs1, (x :: xs2), ((PRE0 ++ t) ++ takeN j' e), cmax0, 0, z.
      split; [exact Hxs|]. split; [exact Hpc|].
      split; [rewrite HS', <- !app_assoc; reflexivity|].
      rewrite HlPRE. pose proof (H2 ffp_ge (ms * B)) as Hger.
      split; [lia|]. split; [lia|]. split; [lia|].
      split; [intros m Hm; lia|].
      split; [unfold a in *; lia|].
      split; [lia|].
      split; [fold t; fold a; lia|]. split; [unfold a in *; lia|].
      intros _. lia.
    + (* nothing of x but pad zeros *)
      assert (Hjp : j' <= lenN (pad_of P a)) by (unfold first_frame_pos in Hout; lia).
      pose proof (enc_rel_take_pad a true x e k0 j' Hk0 Hjp) as Etk.
      assert (HS'' : S_all = (PRE0 ++ t) ++ zerosN (j' + z)).
      { rewrite HS', Etk, (FileStream.zerosN_app j' z). reflexivity. }
      exists xs1, (x :: xs2), (PRE0 ++ t), cmax0, (rm0 - lenN t), (j' + z).
      split; [exact Hxs|]. split; [apply Hclean; fold t; lia|]. split; [exact HS''|].
      rewrite HlP. pose proof (H2 ffp_ge a) as Hgea.
      split; [fold a0 in Hroom0; unfold a in *; lia|]. split; [lia|]. split; [lia|].
      split; [intros m Hm; lia|].
      split; [unfold a in *; lia|].
      split; [lia|].
      split; [fold t; fold a; lia|]. split; [unfold a in *; lia|].
      intros _. lia.
Qed.

(* all the data of the call are in the image: no room is needed after them *)
Theorem crash_stream_preN PRE0 ops0 opos0 adm0 cmax0 rm0 (es_new : list bytes) c0 xs j z (S_all : bytes) :
  pre_cont PRE0 ops0 opos0 adm0 cmax0 rm0 -> rm0 <= 7 ->
  let a0 := lenN PRE0 in
  let T := PRE0 ++ encsof a0 es_new in
  lenN T <= c0 -> c0 <= ffp (lenN T) -> j <= lenN (encsof c0 xs) ->
  S_all = T ++ zerosN (c0 - lenN T) ++ takeN j (encsof c0 xs) ++ zerosN z ->
  stream_ok P S_all ->
  j = lenN (encsof c0 xs) -> lenN PRE0 + rm0 <= lenN S_all ->
  exists xs_d xs_r PRE cmax rm zz,
    xs = xs_d ++ xs_r /\
    pre_cont PRE (ops0 ++ es_new ++ xs_d) (opos0 ++ starts a0 (es_new ++ xs_d)) adm0 cmax rm /\
    S_all = PRE ++ zerosN zz /\ lenN PRE + rm <= lenN S_all /\
    (cmax <= Datatypes.S cmax0)%nat /\ rm <= 7 /\
    (forall m, m * B <= c0 + j -> m * B <= ffp (lenN PRE)) /\
    lenN T <= lenN PRE /\ c0 <= ffp (lenN PRE) /\
    a0 + lenN (encsof a0 (es_new ++ xs_d)) <= lenN PRE /\
    lenN PRE <= a0 + lenN (encsof a0 (es_new ++ xs)) + B /\
    (xs_r <> [] -> j < lenN (encsof c0 xs)).
Proof.
  intros Hpc0 Hrm0 a0 T Hlo Hhi Hj HS Hok Hall Hroom0.
  set (t0 := encsof a0 es_new) in *.
  assert (HlT : lenN T = a0 + lenN t0) by (unfold T; rewrite lenN_app; reflexivity).
  rewrite HlT in *.
  assert (HSb : S_all = PRE0 ++ (t0 ++ zerosN (c0 - (a0 + lenN t0)) ++ takeN j (encsof c0 xs)) ++ zerosN z).
  { rewrite HS. unfold T. rewrite <- !app_assoc. reflexivity. }
  destruct (torn_normal_from P HBS_lo HBS_hi Hcrc a0 t0 c0 es_new xs j (H3 encs_of_rel es_new a0) Hlo Hhi Hj)
    as [(Hend & z0 & Hbody & Hne & Hnil')
       | (xs1 & x & xs2 & j' & Hxs & Hj' & Hbody & Hcj & Hle & Hlt & Hlen & HTt & Htc & Hct)].
  - set (t := encsof a0 (es_new ++ xs)) in *.
    assert (HS' : S_all = (PRE0 ++ t) ++ zerosN (z0 + z)).
    { rewrite HSb, Hbody, <- !app_assoc, (FileStream.zerosN_app z0 z). reflexivity. }
    assert (HlS : lenN S_all = a0 + lenN t + (z0 + z)).
    { rewrite HS', !lenN_app, lenN_zerosN. fold a0. lia. }
    assert (Hlt_le : lenN t0 <= lenN t /\ a0 + lenN t <= c0 + lenN (encsof c0 xs)).
    { destruct xs as [|x0 X0].
      - specialize (Hnil' eq_refl). unfold t. rewrite app_nil_r. fold t0.
        cbn [ResyncProofs.encs_of]. rewrite (@lenN_nil byte). lia.
      - destruct (Hne ltac:(discriminate)) as [_ Hl]. fold t in Hl.
        split; [|lia]. unfold t. rewrite (H3 encs_of_app), lenN_app. fold t0. lia. }
    exists xs, [], (PRE0 ++ t), cmax0, (rm0 - lenN t), (z0 + z).
    split; [now rewrite app_nil_r|].
    split.
    { exact (pre_cont_clean P HBS_lo HBS_hi Hcrc PRE0 ops0 opos0 adm0 cmax0 rm0 (es_new ++ xs) t
               (rm0 - lenN t) Hpc0 (H3 encs_of_rel (es_new ++ xs) a0) ltac:(lia)). }
    split; [exact HS'|].
    rewrite lenN_app. fold a0.
    pose proof (ffp_mono P HBS_lo HBS_hi (a0 + lenN t0) (a0 + lenN t) ltac:(lia)) as Hm0.
    pose proof (H2 ffp_ge (a0 + lenN t)) as Hge0.
    split; [fold a0 in Hroom0; lia|]. split; [lia|]. split; [lia|].
    split.
    { intros m Hm. destruct xs as [|x0 X0].
      - cbn [ResyncProofs.encs_of] in Hend. rewrite (@lenN_nil byte) in Hend. lia.
      - destruct (Hne ltac:(discriminate)) as [_ Hl]. fold t in Hl. lia. }
    split; [lia|].
    split; [lia|].
    split; [fold t; lia|]. split; [fold t; lia|]. intros H; now destruct H.
  - exfalso. cbv zeta in *.
    rewrite Hxs, (H3 encs_of_app), lenN_app in Hall. cbn [ResyncProofs.encs_of] in Hall.
    rewrite lenN_app in Hall. lia.
Qed.

(* the three cases together *)
Theorem crash_stream_pre3 PRE0 ops0 opos0 adm0 cmax0 rm0 (es_new : list bytes) c0 xs j z (S_all : bytes) :
  no_zero_collision P ->
  pre_cont PRE0 ops0 opos0 adm0 cmax0 rm0 -> rm0 <= 7 ->
  let a0 := lenN PRE0 in
  let T := PRE0 ++ encsof a0 es_new in
  lenN T <= c0 -> c0 <= ffp (lenN T) -> j <= lenN (encsof c0 xs) ->
  S_all = T ++ zerosN (c0 - lenN T) ++ takeN j (encsof c0 xs) ++ zerosN z ->
  stream_ok P S_all ->
  j = lenN (encsof c0 xs) \/ c0 + j + B <= lenN S_all \/ c0 + j = lenN S_all ->
  lenN PRE0 + rm0 <= lenN S_all ->
  exists xs_d xs_r PRE cmax rm zz,
    xs = xs_d ++ xs_r /\
    pre_cont PRE (ops0 ++ es_new ++ xs_d) (opos0 ++ starts a0 (es_new ++ xs_d)) adm0 cmax rm /\
    S_all = PRE ++ zerosN zz /\ lenN PRE + rm <= lenN S_all /\
    (cmax <= Datatypes.S cmax0)%nat /\ rm <= 7 /\
    (forall m, m * B <= c0 + j -> m * B <= ffp (lenN PRE)) /\
    lenN T <= lenN PRE /\ c0 <= ffp (lenN PRE) /\
    a0 + lenN (encsof a0 (es_new ++ xs_d)) <= lenN PRE /\
    lenN PRE <= a0 + lenN (encsof a0 (es_new ++ xs)) + B /\
    (xs_r <> [] -> j < lenN (encsof c0 xs)).
Proof.
  intros Hnc Hpc0 Hrm0 a0 T Hlo Hhi Hj HS Hok [Hc|[Hc|Hc]] Hroom0.
  - exact (crash_stream_preN PRE0 ops0 opos0 adm0 cmax0 rm0 es_new c0 xs j z S_all Hpc0 Hrm0 Hlo Hhi Hj HS Hok Hc Hroom0).
  - exact (crash_stream_preK2 P HBS_lo HBS_hi Hcrc Hnc PRE0 ops0 opos0 adm0 cmax0 rm0 es_new c0 xs j z S_all
             Hpc0 Hrm0 Hlo Hhi Hj HS Hok Hc).
  - exact (crash_stream_preG PRE0 ops0 opos0 adm0 cmax0 rm0 es_new c0 xs j z S_all Hpc0 Hrm0 Hlo Hhi Hj HS Hok Hc Hroom0).
Qed.

End RecoverS5.

Print Assumptions crash_stream_preG.
Print Assumptions crash_stream_preN.
Print Assumptions crash_stream_pre3.
