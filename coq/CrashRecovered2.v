(* CrashRecovered2.v — TASK T14, stage 3: the class of "usable" states is closed under calls,
   clean restarts AND crash recoveries.

   jstate st : st satisfies the junk-tolerant invariant for SOME prefix (with its reading
   property pre_cont).  Every state satisfying the restart invariant Inv is a jstate
   (jstate_inv); jstate is preserved by histories of calls and restarts, which refine the
   specification (jstate_run); a clean restart of a jstate is the identity on the abstract state
   (jstate_restart_identity); the recovery of ANY crash image of a call issued from a jstate is
   again a jstate, abstractly the state before or after the call (jstate_crash).
   Hence crash_recovered_crash: after a crash recovery and any continuation, a crash image of a
   later call recovers the state before or after that call, and the doubly recovered log is
   again fully usable. *)
From Coq Require Import Lia ZArith ZifyN ZifyNat ZifyBool List Sorted.
From MRL Require Import Bytes BytesProofs Params Names NamesProofs Frame Record Mem Spec Rolling Log
  Driver Hist NoopProofs SpecRefine RecordProofs StreamProofs PolicyProofs GcProofs GhostLog ReplaySpec
  HandleProofs FileStream ResyncProofs QueueIso RestartInv RestartWrite RestartGc RestartStep
  OpenReplay RestartFinal TornProofs TornFile CrashTrace CrashAtomic
  JInv JGc JStep JunkStream JReopen JRecoverL JRecoverS JRecoverP JRecover JRecoverS2 JRecoverL2
  JCrashShape JRecover2 CrashRecovered.

Arguments N.add : simpl never.
Arguments N.sub : simpl never.
Arguments N.mul : simpl never.

Section Usable.
Variable P : params.
Hypothesis HBS_lo : 7 < BS P.
Hypothesis HBS_hi : BS P <= 65542.
Hypothesis HNB : 1 <= NB P.
Hypothesis Hcrc : forall t p, crcf P t p < 2 ^ 32.
Hypothesis HGC : L_GC P = false.
Hypothesis HIO : L_IO P = false.
Hypothesis HSHORT : L_SHORT P = false.
Hypothesis Hnc : no_zero_collision P.

Local Notation B := (BS P).
Local Notation FB := (FILE_BYTES P).
Local Notation ser := (map entry_ser).

Definition jstate (st : state) : Prop :=
  exists PRE OLD opos adm cmax rm G,
    pre_ok PRE OLD opos /\ pre_cont P PRE (ser OLD) opos adm cmax rm /\ rm <= 7 /\
    (forall m, adm (m * NB P)) /\
    InvJ P PRE OLD opos st G /\
    lenN PRE + rm <= (w_file (s_wr st) + 1 - gh_base G) * FB.

Lemma jstate_inv st G : Inv P st G -> jstate st.
Proof.
  intros HI. exists [], [], [], (fun _ => True), 0%nat, 0, G.
  split; [apply pre_ok_nil|]. split; [apply (pre_cont_nil P HBS_lo HBS_hi Hcrc)|].
  split; [lia|]. split; [intros _; exact I|].
  split; [apply (Inv_InvJ P HBS_lo HBS_hi Hcrc); exact HI|].
  rewrite (@lenN_nil byte). apply N.le_0_l.
Qed.

Lemma jstate_qs_inv st : jstate st -> qs_inv (s_qs st).
Proof. intros (PRE & OLD & opos & adm & cmax & rm & G & _ & _ & _ & _ & HI & _). exact (InvJ_qs_inv P PRE OLD opos st G HI). Qed.

(* histories of calls and clean restarts *)
Theorem jstate_run st h :
  jstate st -> hist_ok P st h ->
  exists st' outs m' souts,
    hrun P st h = Some (st', outs) /\ jstate st' /\ Forall no_io outs /\
    s_run (abs_qs (s_qs st)) (map sop_of (hcalls h)) = (m', souts) /\
    (forall q, s_get m' q = s_get (abs_qs (s_qs st')) q) /\
    map out_logical outs = map Some souts.
Proof.
  intros (PRE & OLD & opos & adm & cmax & rm & G & Hpre & Hpc & Hrm & Hadm & HI & Hroom) Hok.
  pose proof (pre_reads_of_cont P HBS_lo HBS_hi Hcrc PRE (ser OLD) opos adm cmax rm Hpc) as Hrd.
  destruct (hrunJ_inv P HBS_lo HBS_hi HNB Hcrc HGC HIO HSHORT PRE OLD opos adm cmax rm Hpre Hrd Hadm
              h st G HI Hroom Hok) as (st' & outs & G' & Hrun & HI' & Eb & Hroom' & Hno & Hspec).
  destruct (Hspec (abs_qs (s_qs st)) (fun q => eq_refl)) as (m' & souts & Hs & Hm & Hl).
  exists st', outs, m', souts. split; [exact Hrun|]. split.
  { exists PRE, OLD, opos, adm, cmax, rm, G'.
    split; [exact Hpre|]. split; [exact Hpc|]. split; [exact Hrm|]. split; [exact Hadm|].
    split; [exact HI'|exact Hroom']. }
  split; [exact Hno|]. split; [exact Hs|]. split; [exact Hm|exact Hl].
Qed.

Theorem jstate_restart_identity st :
  jstate st -> restart_bound P st ->
  forall pol hint, exists st2,
    restart P st pol hint = OpenOk st2 /\ jstate st2 /\ s_pol st2 = pol /\ w_pending (s_wr st2) = [] /\
    (forall q, s_get (abs_qs (s_qs st2)) q = s_get (abs_qs (s_qs st)) q).
Proof.
  intros (PRE & OLD & opos & adm & cmax & rm & G & Hpre & Hpc & Hrm & Hadm & HI & Hroom) Hb pol hint.
  pose proof (pre_reads_of_cont P HBS_lo HBS_hi Hcrc PRE (ser OLD) opos adm cmax rm Hpc) as Hrd.
  destruct (invJ_reopen P HBS_lo HBS_hi HNB Hcrc HGC HIO HSHORT PRE OLD opos adm cmax rm Hpre Hrd Hadm
              st G HI (restart_reopen_boundJ P HBS_lo HBS_hi HNB Hcrc PRE OLD opos st G HI Hb) Hroom pol hint)
    as (st2 & G2 & Ho & HI2 & Heq & Eb & Epol & Hfile & _).
  exists st2. split; [exact Ho|]. split.
  { exists PRE, OLD, opos, adm, cmax, rm, G2.
    split; [exact Hpre|]. split; [exact Hpc|]. split; [exact Hrm|]. split; [exact Hadm|].
    split; [exact HI2|].
    rewrite Eb. assert ((w_file (s_wr st) + 1 - gh_base G) * FB <= (w_file (s_wr st2) + 1 - gh_base G) * FB)
      by (apply N.mul_le_mono_r; lia). lia. }
  split; [exact Epol|]. split; [exact (open_pending P HGC _ _ _ _ Ho)|]. exact Heq.
Qed.

(* the premises on a call that may be interrupted by a crash, in terms of the state alone *)
Definition crash_call_ok (st : state) (a : bool) (o : op) (tick : bool) (st' : state) (out : outcome) : Prop :=
  w_pending (s_wr st) = [] /\ s_pol st = PAlways a /\
  op_wf_strict (s_qs st) o /\
  crash_phys_bound P (s_wr st) (map snd (step_log P st o)) (abs_qs (s_qs st)) /\
  crash_phys_bound P (s_wr st) (map snd (step_log P st o)) (abs_qs (s_qs st')) /\
  step P st o tick = (st', out) /\
  (* restrictions *)
  w_file (s_wr st') = w_file (s_wr st) /\
  w_off (s_wr st') + B <= FB.

(* crash recovery *)
Theorem jstate_crash st a o tick st' out :
  jstate st -> crash_call_ok st a o tick st' out ->
  (forall e, out <> OutIo e) /\
  exists evs, c_ev (w_ctx (s_wr st')) = rev evs ++ c_ev (w_ctx (s_wr st)) /\
    forall cut k pol hint,
      let img := fold_left apply_event (crash_events evs cut k) (c_fs (w_ctx (s_wr st))) in
      exists st_r, open P img None pol hint = OpenOk st_r /\ jstate st_r /\
        s_pol st_r = pol /\ w_pending (s_wr st_r) = [] /\
        ((forall q, s_get (abs_qs (s_qs st_r)) q = s_get (abs_qs (s_qs st)) q) \/
         (forall q, s_get (abs_qs (s_qs st_r)) q = s_get (abs_qs (s_qs st')) q)).
Proof.
  intros (PRE & OLD & opos & adm & cmax & rm & G & Hpre & Hpc & Hrm & Hadm & HI & Hroom)
         (Hp0 & Hpol & Hop & Hb1 & Hb2 & Hstep & Hroll & Hblk).
  pose proof (crash_phys_bound_ghostJ P HBS_lo HBS_hi HNB Hcrc PRE OLD opos _ G _ _ (proj1 HI) Hb1) as Hc1.
  pose proof (crash_phys_bound_ghostJ P HBS_lo HBS_hi HNB Hcrc PRE OLD opos _ G _ _ (proj1 HI) Hb2) as Hc2.
  assert (Hsb : stream_boundJ P PRE OLD G (map snd (step_log P st o)))
    by (eapply crash_boundJ_stream_boundJ; eassumption).
  pose proof (stepJ_no_io P HBS_lo HBS_hi HNB Hcrc HGC PRE OLD opos Hpre st G o tick HI Hop Hsb) as Hno.
  rewrite Hstep in Hno. cbn [snd] in Hno.
  split; [exact Hno|].
  destruct (crashJ_recover_invJ P HBS_lo HBS_hi HNB Hcrc HGC HIO HSHORT Hnc PRE OLD opos adm cmax rm
              Hpre Hpc Hrm Hadm st G a o tick st' out HI Hp0 Hpol Hop Hsb Hc1 Hc2 Hstep Hno Hroll Hblk)
    as (evs & Hev & Hall).
  exists evs. split; [exact Hev|]. intros cut k pol hint. cbn zeta.
  destruct (Hall cut k pol hint)
    as (PRE2 & OLD2 & opos2 & adm2 & cmax2 & rm2 & st_r & G_r & Hopen & Hpre2 & Hpc2 & Hrm2 & Hadm2 &
        HIr & Hroom2 & Hpolr & Hpendr & Habs).
  exists st_r. split; [exact Hopen|]. split.
  { exists PRE2, OLD2, opos2, adm2, cmax2, rm2, G_r.
    split; [exact Hpre2|]. split; [exact Hpc2|]. split; [exact Hrm2|]. split; [exact Hadm2|].
    split; [exact HIr|exact Hroom2]. }
  split; [exact Hpolr|]. split; [exact Hpendr|exact Habs].
Qed.

(* along a history under the flush-per-operation policy the buffer is empty after every call *)
Lemma jstate_run_always a h : forall st st' outs,
  jstate st -> hist_ok P st h -> always_hist a h ->
  s_pol st = PAlways a -> w_pending (s_wr st) = [] ->
  hrun P st h = Some (st', outs) ->
  s_pol st' = PAlways a /\ w_pending (s_wr st') = [].
Proof.
  induction h as [|[o tick|pol hint] h IH]; intros st st' outs Hj Hok Hal Hpol Hp Hrun.
  - cbn [hrun] in Hrun. injection Hrun as <- _. auto.
  - cbn [hist_ok] in Hok. destruct Hok as (Hop & Hb & Hok). cbn [always_hist] in Hal.
    cbn [hrun] in Hrun.
    destruct (jstate_run st [HCall o tick] Hj) as (st1 & outs1 & _ & _ & Hr1 & Hj1 & _).
    { cbn [hist_ok]. split; [exact Hop|]. split; [exact Hb|exact I]. }
    pose proof (step_pol P st o tick) as Hpol1.
    destruct (step P st o tick) as [s1 out] eqn:Es. cbn [fst snd] in *.
    cbn [hrun] in Hr1. rewrite Es in Hr1. cbn [hrun] in Hr1. injection Hr1 as <- _.
    assert (Hp1 : w_pending (s_wr s1) = []).
    { destruct Hj as (PRE & OLD & opos & adm & cmax & rm & G & Hpre & _ & _ & _ & HI & _).
      pose proof (phys_stream_boundJ P HBS_lo HBS_hi HNB Hcrc PRE OLD opos _ G _ (proj1 HI) Hb) as Hsb.
      pose proof (stepJ_no_io P HBS_lo HBS_hi HNB Hcrc HGC PRE OLD opos Hpre st G o tick HI Hop Hsb) as Hno.
      rewrite Es in Hno. cbn [snd] in Hno.
      destruct (stepJ_call_trace P HBS_lo HBS_hi HNB Hcrc HGC PRE OLD opos st G a o tick s1 out
                  HI Hp Hpol Hsb Es Hno) as (_ & _ & _ & _ & H). exact H. }
    destruct (hrun P s1 h) as [[st2 outs2]|] eqn:Er; [|discriminate]. injection Hrun as <- _.
    apply (IH s1 st2 outs2 Hj1 Hok Hal); [congruence|exact Hp1|exact Er].
  - cbn [hist_ok] in Hok. destruct Hok as (Hb & Hok). cbn [always_hist] in Hal.
    destruct Hal as (-> & Hal). cbn [hrun] in Hrun.
    destruct (jstate_restart_identity st Hj Hb (PAlways a) hint) as (st1 & Eo & Hj1 & Epol1 & Hp1 & _).
    rewrite Eo in *.
    apply (IH st1 st' outs Hj1 Hok Hal Epol1 Hp1 Hrun).
Qed.

(* ====================================================================== *)
(* THE THEOREM of stage 3: a second crash                                 *)
(* ====================================================================== *)
(* After the recovery of a crash image of the call o (setting of crash_recovered_usable) under
   the policy PAlways a2 and any continuation history h2 of calls and clean restarts, every crash
   image of a further call o2 is recovered to the state before or after o2, and the recovered
   log is again usable (jstate: jstate_run / jstate_restart_identity / jstate_crash apply to it). *)
Theorem crash_recovered_crash st G a o tick st' out :
  crash_setting P st G a o tick st' out ->
  exists evs, c_ev (w_ctx (s_wr st')) = rev evs ++ c_ev (w_ctx (s_wr st)) /\
    forall cut k a2 hint st_r,
      open P (fold_left apply_event (crash_events evs cut k) (c_fs (w_ctx (s_wr st)))) None (PAlways a2) hint
        = OpenOk st_r ->
      forall h2 st2 outs2,
        hist_ok P st_r h2 -> always_hist a2 h2 -> hrun P st_r h2 = Some (st2, outs2) ->
        forall o2 tick2 st2' out2,
          op_wf_strict (s_qs st2) o2 ->
          crash_phys_bound P (s_wr st2) (map snd (step_log P st2 o2)) (abs_qs (s_qs st2)) ->
          crash_phys_bound P (s_wr st2) (map snd (step_log P st2 o2)) (abs_qs (s_qs st2')) ->
          step P st2 o2 tick2 = (st2', out2) ->
          w_file (s_wr st2') = w_file (s_wr st2) -> w_off (s_wr st2') + B <= FB ->
          exists evs2, c_ev (w_ctx (s_wr st2')) = rev evs2 ++ c_ev (w_ctx (s_wr st2)) /\
            forall cut2 k2 pol3 hint3,
              exists st_r2,
                open P (fold_left apply_event (crash_events evs2 cut2 k2) (c_fs (w_ctx (s_wr st2))))
                     None pol3 hint3 = OpenOk st_r2 /\
                ((forall q, s_get (abs_qs (s_qs st_r2)) q = s_get (abs_qs (s_qs st2)) q) \/
                 (forall q, s_get (abs_qs (s_qs st_r2)) q = s_get (abs_qs (s_qs st2')) q)) /\
                jstate st_r2.
Proof.
  intros (HI & Hp0 & Hpol & Hop & Hb & Hcb & Hcb' & Hstep & Hno & Hroll & Hblk).
  destruct (crash_recover_invJ P HBS_lo HBS_hi HNB Hcrc HGC HIO HSHORT Hnc st G a o tick st' out
              HI Hp0 Hpol Hop Hb Hcb Hcb' Hstep Hno Hroll Hblk) as (evs & Hev & Hall).
  exists evs. split; [exact Hev|]. intros cut k a2 hint st_r Hopen h2 st2 outs2 Hok2 Hal2 Hrun2
    o2 tick2 st2' out2 Hop2 Hb21 Hb22 Hstep2 Hroll2 Hblk2.
  destruct (Hall cut k (PAlways a2) hint)
    as (PRE & OLD & opos & adm & cmax & rm & st_r' & G_r & Hopen' & Hpre & Hpc & Hrm & Hadm & HIr & Hroom &
        Hpolr & Hpendr & _).
  cbn zeta in Hopen'. rewrite Hopen in Hopen'. injection Hopen' as <-.
  assert (Hjr : jstate st_r).
  { exists PRE, OLD, opos, adm, cmax, rm, G_r.
    split; [exact Hpre|]. split; [exact Hpc|]. split; [exact Hrm|]. split; [exact Hadm|].
    split; [exact HIr|exact Hroom]. }
  destruct (jstate_run_always a2 h2 st_r st2 outs2 Hjr Hok2 Hal2 Hpolr Hpendr Hrun2) as (Hpol2 & Hpend2).
  destruct (jstate_run st_r h2 Hjr Hok2) as (st2x & outs2x & _ & _ & Hr2 & Hj2 & _).
  rewrite Hrun2 in Hr2. injection Hr2 as <- <-.
  destruct (jstate_crash st2 a2 o2 tick2 st2' out2 Hj2) as (_ & evs2 & Hev2 & Hall2).
  { repeat (split; [assumption|]). assumption. }
  exists evs2. split; [exact Hev2|]. intros cut2 k2 pol3 hint3.
  destruct (Hall2 cut2 k2 pol3 hint3) as (st_r2 & Ho2 & Hjr2 & _ & _ & Habs2).
  exists st_r2. split; [exact Ho2|]. split; [exact Habs2|exact Hjr2].
Qed.

End Usable.

Print Assumptions jstate_inv.
Print Assumptions jstate_run.
Print Assumptions jstate_restart_identity.
Print Assumptions jstate_crash.
Print Assumptions crash_recovered_crash.
