(* HeaderDamageFile.v — task T16 (properties C08 / C12): HeaderDamage.v lifted from the in-memory
   stream to the directory.  ONE block of one kept WAL file holds arbitrary bytes (frame headers
   included); under NoEmbeddedPath `open` replays a SUB-LIST of the entries the clean directory
   would replay, all the entries lying entirely before the damaged block included.

   Part A  (pure)    asm on "tail of a straddling entry, clean entries, touched entries, clean
                     entries" (generalises HeaderDamageEv.asm_three to a reader that starts at a
                     block boundary inside an entry): asm_four, finish_core.
   Part B  (bridge)  frame traces that remember the final reader (ftraceF); a frame trace is a
                     reads_trc trace, go_next by go_next, delivering delivered (asm evs)
                     (reads_of_ftraceF).
   Part C  (stream)  the frame trace of the in-memory reader started at block kb <= b of a stream
                     D that agrees with S = t ++ zeros outside block b — S any whole number of
                     blocks, WITHOUT the spare zero block of mem_stream (as the files are); when
                     the reader gets through block b it is left where OpenReplay.at_end puts a
                     reader at the end of the clean log (endsAt; chainF = HeaderDamage.chain with
                     the final reader): frames_from, header_damage_from_core.
   Part D  (files)   open_header_damaged, open_header_damaged_sub.  The rolling reader over the
                     files is the in-memory reader over their concatenation whatever the bytes
                     are (FileStream.rd_rel / TornFile.reads_trc_FV do not look at the content);
                     DamageFile.trace_to_files / open_of_trace_end need the position of every
                     delivered entry (tr_ok) and of the end of the log (at_end): the variants
                     without positions are trace_to_files_weak / open_of_trace_weak (hd_spec).
   Part E            from the global invariant: C08_header_damage (what open returns, where the
                     recovered records come from), header_damaged_dir_exists (the setting is
                     inhabited), C08_header_damage_ok (open succeeds when the reader got through
                     the damaged block).
   Instances (real CRC-32) in HeaderDamageFileEx.v: all premises of open_header_damaged
   discharged; one damaged byte making open fail with Corruption. *)
From Coq Require Import Lia ZArith ZifyN ZifyNat ZifyBool Sorted.
From MRL Require Import Bytes BytesProofs Params Names NamesProofs Frame Record Mem Rolling Log
  Driver StreamProofs DamageProofs TornProofs PolicyProofs GcProofs FileStream ResyncProofs
  RecordProofs GhostLog OpenTerm OpenReplay TornFile DamageFile HeaderDamageEv HeaderDamage.

Arguments N.add : simpl never.
Arguments N.sub : simpl never.
Arguments N.mul : simpl never.
Arguments N.eqb : simpl never.
Arguments N.ltb : simpl never.
Arguments N.leb : simpl never.
Arguments N.div : simpl never.
Arguments N.modulo : simpl never.
Arguments N.min : simpl never.
Arguments N.max : simpl never.

Local Notation sublistD := DamageProofs.sublist.

(* ====================================================================== *)
(* Part A. pure                                                            *)
(* ====================================================================== *)
Section PureA.
Variable P : params.
Local Notation enc_any := (enc_any P).
Local Notation encs_any := (encs_any P).
Local Notation fs_good := (fs_good P).
Local Notation intact := (intact P).

(* the frames A1 of the tail of an entry that began before the reader's starting point: whatever
   the reader makes of them (thin), it delivers nothing and is left outside an entry *)
Lemma asm_tail_nothing q p2 A1 e2 c evA cA :
  A1 = [] \/ enc_any q false p2 A1 e2 -> forallb fs_good A1 = true ->
  thin c A1 evA cA ->
  forall rest buf, exists out buf',
    asm (evA ++ rest) buf false = out ++ asm rest buf' false /\ delivered out = [].
Proof.
  intros [->|He] Hg Hth rest buf.
  - destruct (thin_nil_inv _ _ _ Hth) as [n ->]. rewrite asm_bads_false.
    exists (repeat MrCorrupt n), buf. split; [reflexivity|apply delivered_repeat].
  - destruct (thin_entry P _ _ _ _ Hth _ _ _ _ He Hg rest buf false (fun _ => eq_refl))
      as (out & buf' & E & [Hd|[_ [Hf|Hf]]]); try discriminate.
    exists out, buf'. split; assumption.
Qed.

Theorem asm_four q p2 A1 e2 a1 pxs1 t1 ab pxsb tb a3 pxs3 t3 cA0 evA cA cB0 evB cB :
  A1 = [] \/ enc_any q false p2 A1 e2 -> forallb fs_good A1 = true ->
  encs_any a1 pxs1 t1 -> forallb intact pxs1 = true ->
  encs_any ab pxsb tb -> forallb intact pxsb = true ->
  encs_any a3 pxs3 t3 -> forallb intact pxs3 = true ->
  thin cA0 A1 evA cA -> thin cB0 (flat_map snd pxsb) evB cB ->
  exists mid,
    delivered (asm (evA ++ map ev_of (flat_map snd pxs1) ++ evB ++ map ev_of (flat_map snd pxs3))
                   [] false)
      = map fst pxs1 ++ mid ++ map fst pxs3 /\
    sublistD mid (map fst pxsb).
Proof.
  intros HA GA H1 G1 Hb Gb H3 G3 ThA ThB.
  destruct (asm_tail_nothing _ _ _ _ _ _ _ HA GA ThA
              (map ev_of (flat_map snd pxs1) ++ evB ++ map ev_of (flat_map snd pxs3)) [])
    as (out0 & b0 & E0 & D0).
  destruct (asm_entries_good P _ _ _ H1 G1 (evB ++ map ev_of (flat_map snd pxs3)) b0) as (b1 & E1).
  destruct (thin_entries P _ _ _ Hb Gb _ _ _ ThB (map ev_of (flat_map snd pxs3)) b1)
    as (out & b2 & E2 & Hsub).
  destruct (asm_entries_good P _ _ _ H3 G3 [] b2) as (b3 & E3). rewrite app_nil_r in E3.
  exists (delivered out). split; [|exact Hsub].
  rewrite E0, E1, E2, E3, !delivered_app, D0, !delivered_entries. cbn [asm delivered flat_map app].
  rewrite app_nil_r. reflexivity.
Qed.

(* the two ways the frames met by a reader started inside an entry are grouped (see
   StreamB.frames_from): the tail A1 of that entry is clean and so are the entries pxs1, or the
   tail itself reaches the damaged block (and then there is no pxs1) *)
Lemma finish_core q p2 A1 e2 a1 pxs1 t1 ab pxsb tb a3 pxs3 t3 C M evM c' :
  A1 = [] \/ enc_any q false p2 A1 e2 -> forallb fs_good A1 = true ->
  encs_any a1 pxs1 t1 -> forallb intact pxs1 = true ->
  encs_any ab pxsb tb -> forallb intact pxsb = true ->
  encs_any a3 pxs3 t3 -> forallb intact pxs3 = true ->
  (C = A1 ++ flat_map snd pxs1 /\ M = flat_map snd pxsb) \/
  (C = [] /\ pxs1 = [] /\ M = A1 ++ flat_map snd pxsb) ->
  thin true M evM c' ->
  exists mid,
    delivered (asm (map ev_of C ++ evM ++ map ev_of (flat_map snd pxs3)) [] false)
      = map fst pxs1 ++ mid ++ map fst pxs3 /\
    sublistD mid (map fst pxsb).
Proof.
  intros HA GA H1 G1 Hb Gb H3 G3 [[-> ->]|(-> & -> & ->)] Hth.
  - destruct (thin_oks A1 true) as (cA & ThA).
    rewrite map_app, <- app_assoc.
    exact (asm_four _ _ _ _ _ _ _ _ _ _ _ _ _ _ _ _ _ _ _ HA GA H1 G1 Hb Gb H3 G3 ThA Hth).
  - destruct (thin_split _ _ _ _ _ Hth) as (evA & evB & cm & -> & ThA & ThB).
    cbn [map app]. rewrite <- app_assoc.
    exact (asm_four _ _ _ _ _ _ _ _ _ _ _ _ _ _ _ _ _ _ _ HA GA H1 G1 Hb Gb H3 G3 ThA ThB).
Qed.

End PureA.

(* ====================================================================== *)
(* Part B. a frame trace is a go_next trace                                *)
(* ====================================================================== *)
Section TraceF.
Variable P : params.
Local Notation rframe := (read_frame P vecr (vr_next P) vr_block).
Local Notation gonext := (go_next P vecr (vr_next P) vr_block).
Local Notation readsC := (reads_trc P (vr_next P) vr_block).

(* HeaderDamageEv.ftrace with the reader left by the final FNotAvail *)
Inductive ftraceF : freader vecr -> list fev -> freader vecr -> Prop :=
| FF_end fr fr' : rframe fr = (fr', FNotAvail) -> ftraceF fr [] fr'
| FF_ok fr fr' t p evs frE :
    rframe fr = (fr', FOk t p) -> ftraceF fr' evs frE -> ftraceF fr (EvOk t p :: evs) frE
| FF_bad fr fr' evs frE :
    rframe fr = (fr', FCorrupt) -> ftraceF fr' evs frE -> ftraceF fr (EvBad :: evs) frE.

Lemma ftraceF_ftrace fr evs frE : ftraceF fr evs frE -> ftrace P fr evs.
Proof.
  induction 1 as [fr fr' H | fr fr' t p evs frE H Hn IH | fr fr' evs frE H Hn IH].
  - exact (FT_end P _ _ H).
  - exact (FT_ok P _ _ _ _ _ H IH).
  - exact (FT_bad P _ _ _ H IH).
Qed.

Lemma ftrace_ftraceF fr evs : ftrace P fr evs -> exists frE, ftraceF fr evs frE.
Proof.
  induction 1 as [fr fr' H | fr fr' t p evs H Hn [frE IH] | fr fr' evs H Hn [frE IH]].
  - exists fr'. exact (FF_end _ _ H).
  - exists frE. exact (FF_ok _ _ _ _ _ _ H IH).
  - exists frE. exact (FF_bad _ _ _ _ H IH).
Qed.

Lemma ftraceF_cong fr1 fr2 evs frE : rframe fr1 = rframe fr2 -> ftraceF fr2 evs frE -> ftraceF fr1 evs frE.
Proof.
  intros E H. destruct H as [fr fr' H | fr fr' t p evs frE H Hn | fr fr' evs frE H Hn]; rewrite <- E in H.
  - exact (FF_end _ _ H).
  - exact (FF_ok _ _ _ _ _ _ H Hn).
  - exact (FF_bad _ _ _ _ H Hn).
Qed.

Lemma go_next_traceF fr evs frE :
  ftraceF fr evs frE ->
  forall buf w g evs' b' w' r,
    (length evs + 1 <= g)%nat -> ago1 evs buf w = (evs', b', w', r) ->
    exists fr', gonext g (mkRR fr buf w) = (mkRR fr' b' w', r) /\
                (r <> REnd -> ftraceF fr' evs' frE) /\ (r = REnd -> fr' = frE).
Proof.
  induction 1 as [fr fr' H | fr fr' t p evs frE H Hn IH | fr fr' evs frE H Hn IH];
    intros buf w g evs' b' w' r Hg Hago; (destruct g as [|g]; [cbn [length] in Hg; lia|]);
    cbn [length] in Hg; cbn [ago1] in Hago; cbn [go_next rr_fr rr_buf rr_within]; rewrite H.
  - inversion Hago; subst. exists fr'. split; [reflexivity|]. split; [congruence|reflexivity].
  - destruct (if is_first_frame t then true else w).
    + destruct (is_last_frame t).
      * inversion Hago; subst. exists fr'. split; [reflexivity|].
        split; [intros _; exact Hn|discriminate].
      * apply IH; [lia|exact Hago].
    + apply IH; [lia|exact Hago].
  - inversion Hago; subst. exists fr'. split; [reflexivity|].
    split; [intros _; exact Hn|discriminate].
Qed.

Lemma delivered_cons_entry b l : delivered (MrEntry b :: l) = b :: delivered l.
Proof. reflexivity. Qed.
Lemma delivered_cons_corrupt l : delivered (MrCorrupt :: l) = delivered l.
Proof. reflexivity. Qed.

(* the go_next trace: the records delivered are those of asm, and the final reader is frE *)
Lemma reads_of_ftraceF n : forall evs fr buf w g frE,
  (length evs <= n)%nat -> ftraceF fr evs frE -> (length evs + 1 <= g)%nat ->
  exists rrs c rrf,
    length rrs = length (delivered (asm evs buf w)) /\
    readsC g (mkRR fr buf w) (combine rrs (delivered (asm evs buf w))) c rrf /\
    (length (delivered (asm evs buf w)) + c <= length evs)%nat /\
    rr_fr rrf = frE.
Proof.
  induction n as [|n IH]; intros evs fr buf w g frE Hn Htr Hg;
    destruct (ago1 evs buf w) as [[[evs' b'] w'] r] eqn:Hago;
    destruct (go_next_traceF _ _ _ Htr buf w g evs' b' w' r Hg Hago) as (fr' & Hgo & Hnext & Hfin);
    rewrite asm_ago1, Hago;
    destruct (ago1_shape _ _ _ _ _ _ _ Hago) as [->|[[->| ->] Hlt]].
  - exists [], 0%nat, (mkRR fr' b' w'). cbn [delivered flat_map combine length app rr_fr].
    split; [reflexivity|]. split; [apply RC_end; exact Hgo|]. split; [lia|exact (Hfin eq_refl)].
  - lia.
  - lia.
  - exists [], 0%nat, (mkRR fr' b' w'). cbn [delivered flat_map combine length app rr_fr].
    split; [reflexivity|]. split; [apply RC_end; exact Hgo|]. split; [lia|exact (Hfin eq_refl)].
  - destruct (IH evs' fr' b' w' g frE ltac:(lia) (Hnext ltac:(discriminate)) ltac:(lia))
      as (rrs & c & rrf & Hl & Hrd & Hc & Hf).
    exists (mkRR fr buf w :: rrs), c, rrf. rewrite delivered_cons_entry. cbn [length combine].
    split; [now rewrite Hl|]. split; [|split; [lia|exact Hf]].
    apply (RC_rec P vecr (vr_next P) vr_block g _ (mkRR fr' b' w')); [exact Hgo|exact Hrd].
  - destruct (IH evs' fr' b' w' g frE ltac:(lia) (Hnext ltac:(discriminate)) ltac:(lia))
      as (rrs & c & rrf & Hl & Hrd & Hc & Hf).
    exists rrs, (S c), rrf. rewrite delivered_cons_corrupt.
    split; [exact Hl|]. split; [|split; [lia|exact Hf]].
    apply (RC_cor P vecr (vr_next P) vr_block g _ (mkRR fr' b' w')); [exact Hgo|exact Hrd].
Qed.

End TraceF.

(* ====================================================================== *)
(* Part C. the frame trace from block kb                                   *)
(* ====================================================================== *)
Section StreamB.
Variable P : params.
Hypothesis HBS_lo : 7 < BS P.
Hypothesis HBS_hi : BS P <= 65542.
Hypothesis Hcrc : forall t p, crcf P t p < 2 ^ 32.

Local Notation B := (BS P).
Local Notation rframe := (read_frame P vecr (vr_next P) vr_block).
Local Notation pad_of := (pad_of P).
Local Notation rd_at := (rd_at P).
Local Notation rd_of := (rd_of P).
Local Notation stream_ok := (stream_ok P).
Local Notation layout := (layout P).
Local Notation fs_good := (fs_good P).
Local Notation ffp := (first_frame_pos P).
Local Notation ftrace := (ftrace P).
Local Notation tr := (tr P).
Local Notation fpos := (fpos P).
Local Notation encs_any := (encs_any P).
Local Notation enc_any := (enc_any P).
Local Notation intact := (intact P).
Local Notation H3 f := (f P HBS_lo HBS_hi Hcrc) (only parsing).
Local Notation H2 f := (f P HBS_lo HBS_hi) (only parsing).
Local Notation pad_geom := (H2 TornProofs.pad_geom).
Local Notation kc_unique := (H2 TornProofs.kc_unique).
Local Notation blocks_above := (H2 TornProofs.blocks_above).
Local Notation block_exists := (H3 TornProofs.block_exists).
Local Notation mulB_lt_inv := (H2 TornProofs.mulB_lt_inv).
Local Notation mulB_le := (TornProofs.mulB_le P).
Local Notation boundary_is_ffp := (H2 ResyncProofs.boundary_is_ffp).
Local Notation ffp_le_boundary := (H2 ResyncProofs.ffp_le_boundary).
Local Notation ffp_aligned := (H2 ResyncProofs.ffp_aligned).

Implicit Types D S : bytes.

(* ---------- traces that know where the reader is left at the end ---------- *)
Local Notation at_pos := (at_pos P).
Local Notation at_end := (OpenReplay.at_end P).
Local Notation ftraceF := (ftraceF P).

(* from fr the frame events are evs, and the final reader is where OpenReplay.at_end puts a
   reader that met the end of the log at e *)
Definition endsAt (D : bytes) (fr : freader vecr) (evs : list fev) (e : N) : Prop :=
  exists frE, ftraceF fr evs frE /\ at_end D frE e.

(* the same from any reader at the (unnormalised) cursor a *)
Definition trA (D : bytes) (a : N) (evs : list fev) (e : N) : Prop :=
  forall fr, at_pos D fr a -> endsAt D fr evs e.

Lemma endsAt_ftrace D fr evs e : endsAt D fr evs e -> ftrace fr evs.
Proof. intros (frE & H & _). exact (ftraceF_ftrace P _ _ _ H). Qed.

Lemma endsAt_cong D fr1 fr2 evs e : rframe fr1 = rframe fr2 -> endsAt D fr2 evs e -> endsAt D fr1 evs e.
Proof. intros E (frE & H & He). exists frE. split; [exact (ftraceF_cong P _ _ _ _ E H)|exact He]. Qed.

Lemma endsAt_ok D fr fr' t p evs e :
  rframe fr = (fr', FOk t p) -> endsAt D fr' evs e -> endsAt D fr (EvOk t p :: evs) e.
Proof. intros E (frE & H & He). exists frE. split; [exact (FF_ok P _ _ _ _ _ _ E H)|exact He]. Qed.

Lemma endsAt_bad D fr fr' evs e :
  rframe fr = (fr', FCorrupt) -> endsAt D fr' evs e -> endsAt D fr (EvBad :: evs) e.
Proof. intros E (frE & H & He). exists frE. split; [exact (FF_bad P _ _ _ _ E H)|exact He]. Qed.

(* cf. HeaderDamage.run_frames *)
Lemma trA_frames D : stream_ok D -> forall a xs e, layout a xs e ->
  forallb fs_good xs = true -> Forall (present1 D) (fpos a xs) ->
  a + lenN e <= lenN D ->
  forall evs e', trA D (a + lenN e) evs e' -> trA D a (map ev_of xs ++ evs) e'.
Proof.
  intros Hok a xs e Hl.
  induction Hl as [a | a x xs e Hc4 Hfit Hl IH]; intros Hg Hpres Hroom evs e' Htr.
  - rewrite (@lenN_nil byte), N.add_0_r in Htr. exact Htr.
  - cbn [forallb] in Hg. apply andb_true_iff in Hg as [Hgx Hg].
    cbn [HeaderDamage.fpos] in Hpres. pose proof (Forall_inv Hpres) as Hp1. apply Forall_inv_tail in Hpres.
    unfold present1, qend in Hp1. cbn [fst snd] in Hp1.
    destruct (pad_geom a) as (k' & c' & Hp & Hc' & Hmw & _).
    rewrite (H3 layout_step_pos) in Hroom, Htr by exact Hc4.
    set (a' := a + lenN (pad_of a) + 7 + lenN (fs_pl x)) in *.
    pose proof (IH Hg Hpres Hroom evs e' Htr) as Hrest.
    assert (Hblk : (k' + 1) * B <= lenN D) by (apply (block_exists D k' c' 7 Hok); lia).
    intros fr Hat. cbn [map app].
    apply (endsAt_cong D fr (rd_at D k' c'));
      [exact (H3 TornProofs.at_pos_pad D fr a k' c' Hok Hat Hp Hc' Hblk)|].
    apply (endsAt_ok D _ (rd_at D k' (c' + 7 + lenN (fs_pl x)))).
    + assert (Hsl : sliceN (k' * B + c') (k' * B + c' + 7 + lenN (fs_pl x)) D = fs_bytes x)
        by (rewrite <- Hp; exact Hp1).
      rewrite (H3 read_frame_present D k' c' x Hc4 ltac:(lia) Hblk Hsl).
      rewrite Hgx. reflexivity.
    + apply Hrest. exists k', (c' + 7 + lenN (fs_pl x)).
      split; [unfold a'; lia|]. split; [lia|]. split; [exact Hblk|reflexivity].
Qed.

(* the end of the log: everything from a on is zero (any position, room for a header or not) *)
Lemma trA_end_gen D written z a :
  D = written ++ zerosN z -> lenN written <= a -> trA D a [] a.
Proof.
  intros HD Hw fr Hat.
  destruct (H3 OpenReplay.read_frame_end_gen D written z fr a HD Hw Hat) as (fr' & Hrf & Hend).
  exists fr'. split; [exact (FF_end P _ _ Hrf)|exact Hend].
Qed.

(* the end of the log: a zero header at the normalised position (what follows may be anything) *)
Lemma trA_zero D a k c :
  stream_ok D -> ffp a = k * B + c -> c + 7 <= B -> (k + 1) * B <= lenN D ->
  all_zero (sliceN (k * B + c) (k * B + c + 7) D) = true -> trA D a [] a.
Proof.
  intros Hok Hp Hc Hblk Hz fr Hat.
  apply (endsAt_cong D fr (rd_at D k c));
    [exact (H3 TornProofs.at_pos_pad D fr a k c Hok Hat Hp Hc Hblk)|].
  exists (rd_at D k c). split.
  - apply (FF_end P). apply (H3 StreamProofs.read_frame_zero); [lia|].
    rewrite sliceN_sliceN by lia. replace (k * B + (c + 7)) with (k * B + c + 7) by lia. exact Hz.
  - exists k, c. split; [reflexivity|]. split; [exact Hblk|]. split; [lia|].
    left. split; [symmetry; exact Hp|exact Hc].
Qed.

(* normalised and unnormalised cursors *)
Lemma trA_norm D a evs e k c :
  stream_ok D -> trA D a evs e -> ffp a = k * B + c -> c + 7 <= B -> (k + 1) * B <= lenN D ->
  endsAt D (rd_at D k c) evs e.
Proof.
  intros Hok Htr Hp Hc Hblk. unfold first_frame_pos in Hp.
  destruct (pad_geom a) as (k' & c' & Hp' & Hc' & _ & [Hz | (Hc0 & Hpad & k0 & Hk & Ha)]).
  - apply Htr. exists k, c. repeat split; try lia.
  - destruct (kc_unique k c k' c') as [<- <-]; [lia|lia|lia|].
    assert (Hat : at_pos D (rd_at D k0 (B - lenN (pad_of a))) a).
    { exists k0, (B - lenN (pad_of a)). split; [exact Ha|]. split; [lia|].
      split; [|reflexivity]. subst k. lia. }
    apply (endsAt_cong D _ (rd_at D k0 (B - lenN (pad_of a)))); [|exact (Htr _ Hat)].
    symmetry. exact (H3 TornProofs.at_pos_pad D _ a k c Hok Hat Hp Hc Hblk).
Qed.

Lemma trA_of_norm D a evs e k c :
  stream_ok D -> ffp a = k * B + c -> c + 7 <= B -> (k + 1) * B <= lenN D ->
  endsAt D (rd_at D k c) evs e -> trA D a evs e.
Proof.
  intros Hok Hp Hc Hblk He fr Hat.
  apply (endsAt_cong D fr (rd_at D k c)); [|exact He].
  exact (H3 TornProofs.at_pos_pad D fr a k c Hok Hat Hp Hc Hblk).
Qed.

Lemma trA_shift D a a' evs e :
  stream_ok D -> ffp a = ffp a' -> ffp a + 7 <= lenN D -> trA D a' evs e -> trA D a evs e.
Proof.
  intros Hok Hff Hroom Htr.
  destruct (pad_geom a') as (k & c & Hp & Hc & _).
  assert (Hblk : (k + 1) * B <= lenN D).
  { apply (block_exists D k c 7 Hok); [|lia]. unfold first_frame_pos in Hff, Hroom. lia. }
  apply (trA_of_norm D a evs e k c Hok); [rewrite Hff; exact Hp|exact Hc|exact Hblk|].
  exact (trA_norm D a' evs e k c Hok Htr Hp Hc Hblk).
Qed.

Lemma leaves_outF D k fr :
  leaves P D k fr -> (k + 2) * B <= lenN D ->
  forall evs e, trA D ((k + 1) * B) evs e -> endsAt D fr evs e.
Proof.
  intros [Hn _] Hle evs e Htr.
  apply (endsAt_cong D fr (rd_at D (k + 1) 0)); [apply Hn; exact Hle|].
  apply Htr. exists (k + 1), 0. repeat split; lia.
Qed.

(* cf. HeaderDamage.outcome / chain_end / chain, with the final reader *)
Definition outcomeF (D : bytes) (b : N) (fr : freader vecr) (evs : list fev)
           (R' : list (N * DamageProofs.fspec)) : Prop :=
  (ftrace fr evs /\ stopped_in P D b) \/
  ((b + 2) * B <= lenN D /\ spaced ((b + 1) * B) R' /\
   forall evs3 e, trA D ((b + 1) * B) evs3 e -> endsAt D fr (evs ++ evs3) e).

Section ChainF.
Variable D : bytes.
Variable b : N.
Variable xs : list DamageProofs.fspec.
Hypothesis Hblk : (b + 1) * B <= lenN D.
Hypothesis Hne : NoEmbeddedPathX P D b xs.
Hypothesis Hfits : Forall (fits1 P) (fpos 0 xs).

Lemma chain_endF c st Gd R :
  c <= B -> B - c < 7 -> fpos 0 xs = Gd ++ R -> spaced (b * B + c) R ->
  exists evs Rc R' st',
    R = Rc ++ R' /\ thin st (map snd Rc) evs st' /\
    Forall (fun qx => fst qx < (b + 1) * B) Rc /\
    outcomeF D b (rd_at D b c) evs R'.
Proof.
  intros Hc Hend HG HR. exists [], [], R, st.
  split; [reflexivity|]. split; [constructor|]. split; [constructor|].
  pose proof (H3 leaves_skip D b c Hend) as Hlv.
  destruct (H3 leaves_out D b _ Hlv) as [[Hno Hl] | [Hlen _]];
    [left; split; [exact Hl|left; exact Hno]|right].
  split; [exact Hlen|].
  split; [|intros evs3 e Ht; exact (leaves_outF D b _ Hlv Hlen _ _ Ht)].
  destruct R as [|qx r]; [exact I|]. destruct HR as [H1 H2']. split; [|exact H2'].
  rewrite Forall_forall in Hfits.
  destruct (Hfits qx) as (k' & Hk1 & Hk2).
  { rewrite HG. apply in_or_app. right. left. reflexivity. }
  unfold qend in Hk2.
  destruct (N.le_gt_cases ((b + 1) * B) (fst qx)) as [Hle|Hgt]; [exact Hle|exfalso].
  assert (Hk : k' < b + 1) by (apply mulB_lt_inv; lia).
  assert (Hk' : k' + 1 <= b + 1) by lia.
  pose proof (mulB_le _ _ Hk'). lia.
Qed.

Lemma chainF n : forall c, c <= B -> B - c <= N.of_nat n -> reach P D b c ->
  forall st Gd R, fpos 0 xs = Gd ++ R ->
    Forall (fun qx => fst qx < b * B + c) Gd -> spaced (b * B + c) R ->
  exists evs Rc R' st',
    R = Rc ++ R' /\ thin st (map snd Rc) evs st' /\
    Forall (fun qx => fst qx < (b + 1) * B) Rc /\
    outcomeF D b (rd_at D b c) evs R'.
Proof.
  induction n as [|n IH]; intros c Hc Hn Hrc st Gd R HG HGd HR;
    (destruct (N.lt_ge_cases (B - c) 7) as [Hend|Hroom];
     [apply (chain_endF c st Gd R Hc Hend HG HR)|]); [lia|].
  assert (Hroom' : c + 7 <= B) by lia.
  destruct (H3 read_frame_cases D b c) as
    [Hz | [(c' & Hbad) | [(len & Hfit & Hbad) | (t & p & Hfit & Hgood & Hsl)]]]; [lia|exact Hblk| | | |].
  - (* zero header: the reader stops *)
    exists [], [], R, st.
    split; [reflexivity|]. split; [constructor|]. split; [constructor|].
    left. destruct Hz as [Hz Hzero]. split; [exact (FT_end P _ _ Hz)|].
    right. exists c. split; [exact Hrc|]. split; [exact Hroom'|exact Hzero].
  - (* invalid header: the rest of the block is dropped *)
    destruct (spaced_split ((b + 1) * B) R _ HR) as (Rs & R1 & -> & HRs & HR1).
    exists [EvBad], Rs, R1, false.
    split; [reflexivity|]. split.
    { apply T_bad. rewrite <- (app_nil_r (map snd Rs)). apply thin_skips. constructor. }
    split; [exact HRs|].
    pose proof (H3 leaves_flag D b c') as Hlv.
    destruct (H3 leaves_out D b _ Hlv) as [[Hno Hl] | [Hlen _]].
    + left. split; [exact (FT_bad P _ _ _ Hbad Hl)|left; exact Hno].
    + right. split; [exact Hlen|]. split; [exact HR1|].
      intros evs3 e Ht. cbn [app].
      exact (endsAt_bad D _ _ _ _ Hbad (leaves_outF D b _ Hlv Hlen _ _ Ht)).
  - (* valid header, CRC mismatch: jump by the (untrusted) length *)
    destruct (spaced_split (b * B + (c + 7 + len)) R _ HR) as (Rs & R1 & -> & HRs & HR1).
    destruct (IH (c + 7 + len) Hfit ltac:(lia) (reach_step P D b _ _ _ Hrc Hroom' Hbad) false (Gd ++ Rs) R1) as
      (evs' & Rc' & R' & st' & -> & Hth & HF & Hout).
    { rewrite HG, app_assoc. reflexivity. }
    { apply Forall_app. split; [|exact HRs].
      eapply Forall_impl; [|exact HGd]. intros qx H. cbn beta in H. lia. }
    { exact HR1. }
    exists (EvBad :: evs'), (Rs ++ Rc'), R', st'.
    split; [now rewrite app_assoc|]. split.
    { rewrite map_app. apply T_bad. apply thin_skips. exact Hth. }
    split.
    { apply Forall_app. split; [|exact HF].
      eapply Forall_impl; [|exact HRs]. intros qx H. cbn beta in H. lia. }
    destruct Hout as [[Hl Hst] | (Hlen2 & Hsp & Hl)].
    + left. split; [exact (FT_bad P _ _ _ Hbad Hl)|exact Hst].
    + right. split; [exact Hlen2|]. split; [exact Hsp|].
      intros evs3 e Ht. cbn [app]. exact (endsAt_bad D _ _ _ _ Hbad (Hl _ _ Ht)).
  - (* a frame verifies: by NoEmbedded it is the next genuine frame *)
    pose proof (Hne c Hrc t p Hfit Hsl) as Hin. rewrite HG in Hin.
    apply in_app_or in Hin as [Hin|Hin].
    { rewrite Forall_forall in HGd. specialize (HGd _ Hin). cbn [fst] in HGd. lia. }
    destruct (H2 spaced_head _ _ _ HR Hin) as (r & -> & Hr).
    unfold qend in Hr. cbn [fst snd DamageProofs.good_fs fs_pl] in Hr.
    destruct (IH (c + 7 + lenN p) Hfit ltac:(lia) (reach_step P D b _ _ _ Hrc Hroom' Hgood) true
                (Gd ++ [(b * B + c, good_fs P t p)]) r) as
      (evs' & Rc' & R' & st' & -> & Hth & HF & Hout).
    { rewrite HG, <- app_assoc. reflexivity. }
    { apply Forall_app. split.
      - eapply Forall_impl; [|exact HGd]. intros qx H. cbn beta in H. lia.
      - constructor; [cbn [fst]; lia|constructor]. }
    { replace (b * B + (c + 7 + lenN p)) with (b * B + c + 7 + lenN p) by lia. exact Hr. }
    exists (EvOk t p :: evs'), ((b * B + c, good_fs P t p) :: Rc'), R', st'.
    split; [reflexivity|]. split.
    { cbn [map snd]. exact (T_ok st (good_fs P t p) _ _ _ Hth). }
    split; [constructor; [cbn [fst]; lia|exact HF]|].
    destruct Hout as [[Hl Hst] | (Hlen2 & Hsp & Hl)].
    + left. split; [exact (FT_ok P _ _ _ _ _ Hgood Hl)|exact Hst].
    + right. split; [exact Hlen2|]. split; [exact Hsp|].
      intros evs3 e Ht. cbn [app]. exact (endsAt_ok D _ _ _ _ _ _ Hgood (Hl _ _ Ht)).
Qed.

End ChainF.

(* ---------- the frame trace of a reader started at block kb <= b ---------- *)
(* The frames of the clean stream t, in four groups: G (before the starting boundary kb * B),
   C (clean: between the boundary and block b), M (those that may be touched: everything from
   the first frame that reaches into block b up to the last frame of the group, chosen by the
   caller), F3 (clean: at or after the end of block b).  The reader started at block kb reads
   the frames of C, then events evM that are a thinning of M, then either the frames of F3 — and
   it is left at the end e of the log (e = |t| when block b lies inside the written bytes) — or,
   if it met an all-zero header inside block b, or block b is the last one, nothing more. *)
Theorem frames_from G C M F3 eG eC eM t3 z D b kb :
  layout 0 G eG -> layout (lenN eG) C eC -> layout (lenN eG + lenN eC) M eM ->
  layout (lenN eG + lenN eC + lenN eM) F3 t3 ->
  forallb fs_good (G ++ C ++ M ++ F3) = true ->
  stream_ok ((eG ++ eC ++ eM ++ t3) ++ zerosN z) ->
  lenN D = lenN ((eG ++ eC ++ eM ++ t3) ++ zerosN z) ->
  takeN (b * B) D = takeN (b * B) ((eG ++ eC ++ eM ++ t3) ++ zerosN z) ->
  dropN ((b + 1) * B) D = dropN ((b + 1) * B) ((eG ++ eC ++ eM ++ t3) ++ zerosN z) ->
  (b + 1) * B <= lenN D ->
  lenN eG <= kb * B -> kb * B <= ffp (lenN eG) -> kb <= b ->
  lenN eG + lenN eC <= b * B ->
  (F3 = [] \/ (b + 1) * B <= ffp (lenN eG + lenN eC + lenN eM)) ->
  NoEmbeddedPathX P D b (G ++ C ++ M ++ F3) ->
  exists evM c',
    (thin true M evM c' /\
     exists e, endsAt D (rd_at D kb 0) (map ev_of C ++ evM ++ map ev_of F3) e /\
               ((b + 1) * B <= lenN (eG ++ eC ++ eM ++ t3) -> e = lenN (eG ++ eC ++ eM ++ t3))) \/
    (exists Mp Ms, M = Mp ++ Ms /\ thin true Mp evM c' /\
                   ftrace (rd_at D kb 0) (map ev_of C ++ evM) /\ stopped_in P D b).
Proof.
  intros LG LC Lb L3 Gall HokS HlenD Hlo Hhi Hb HposG HposC Hkb H1pos H3pos Hne.
  set (t1 := eG ++ eC) in *. set (F1 := G ++ C) in *.
  assert (Ht1 : lenN t1 = lenN eG + lenN eC) by (unfold t1; rewrite lenN_app; reflexivity).
  rewrite <- Ht1 in Lb, L3, H1pos, H3pos.
  assert (LC' : layout (0 + lenN eG) C eC) by (rewrite N.add_0_l; exact LC).
  pose proof (H3 layout_app _ _ _ LG _ _ LC') as L1. fold F1 t1 in L1.
  set (S := (eG ++ eC ++ eM ++ t3) ++ zerosN z) in *.
  set (tb := eM) in *.
  assert (HS : S = (t1 ++ tb ++ t3) ++ zerosN z) by (unfold S, t1, tb; now rewrite <- !app_assoc).
  destruct HokS as (m & HlenS).
  assert (Hok : stream_ok D) by (exists m; lia).
  destruct (H3 layout_split _ _ _ Lb b H1pos) as (H & X2 & eH & e2 & EFb & Etb & LH & LX2 & HaH & HorH).
  set (aH := lenN t1 + lenN eH) in *.
  destruct (H3 layout_split _ _ _ LX2 (b + 1)) as (Xb & T & eb & eT & EX2 & Ee2 & LXb & LT & HaT & HorT); [lia|].
  set (aT := aH + lenN eb) in *.
  assert (Hpos3 : aT + lenN eT = lenN t1 + lenN tb).
  { rewrite Etb, Ee2, !lenN_app. unfold aT, aH. lia. }
  assert (L3' : layout (aT + lenN eT) F3 t3) by (rewrite Hpos3; exact L3).
  pose proof (H3 layout_app _ _ _ LT _ _ L3') as LY.
  assert (LH' : layout (0 + lenN t1) H eH) by (rewrite N.add_0_l; exact LH).
  pose proof (H3 layout_app _ _ _ L1 _ _ LH') as L1H.
  assert (HlenL1H : 0 + lenN (t1 ++ eH) = aH) by (rewrite lenN_app; unfold aH; lia).
  pose proof (H3 layout_app aH Xb eb LXb _ _ LY) as LXbY.
  assert (LXbY' : layout (0 + lenN (t1 ++ eH)) (Xb ++ T ++ F3) (eb ++ eT ++ t3))
    by (rewrite HlenL1H; exact LXbY).
  pose proof (H3 layout_app _ _ _ L1H _ _ LXbY') as Lxs.
  assert (Et : t1 ++ tb ++ t3 = (t1 ++ eH) ++ eb ++ eT ++ t3).
  { rewrite Etb, Ee2, <- !app_assoc. reflexivity. }
  assert (Exs : G ++ C ++ M ++ F3 = (F1 ++ H) ++ Xb ++ T ++ F3).
  { unfold F1. rewrite EFb, EX2, <- !app_assoc. reflexivity. }
  set (xs := (F1 ++ H) ++ Xb ++ T ++ F3) in *.
  assert (Hfp : fpos 0 xs = fpos 0 (F1 ++ H) ++ fpos aH Xb ++ fpos aT (T ++ F3)).
  { unfold xs. rewrite (H3 fpos_app 0 _ _ L1H), HlenL1H, (H3 fpos_app aH _ _ LXb). reflexivity. }
  assert (Gxs : forallb fs_good xs = true) by (rewrite <- Exs; exact Gall).
  assert (GG : forallb fs_good (F1 ++ H) = true /\ forallb fs_good (T ++ F3) = true).
  { unfold xs in Gxs.
    rewrite (forallb_app _ (F1 ++ H) (Xb ++ T ++ F3)), (forallb_app _ Xb (T ++ F3)) in Gxs.
    apply andb_true_iff in Gxs as [Ha Hb']. apply andb_true_iff in Hb' as [_ Hc]. split; assumption. }
  destruct GG as [G1H GY].
  (* the frames outside block b stand in D *)
  assert (PresS : Forall (present1 S) (fpos 0 xs)).
  { apply (H3 layout_present 0 xs _ Lxs S [] (zerosN z)); [|reflexivity].
    rewrite HS, Et. reflexivity. }
  rewrite Hfp in PresS. apply Forall_app in PresS as [PS1 PS3]. apply Forall_app in PS3 as [_ PS3].
  assert (PD1 : Forall (present1 D) (fpos 0 (F1 ++ H))).
  { apply (present_lo D S (b * B) _ Hlo PS1).
    eapply Forall_impl; [|exact (H3 fpos_bounds _ _ _ L1H)]. intros qx [_ Hq]. lia. }
  assert (HY : T ++ F3 = [] \/ (b + 1) * B <= ffp aT).
  { destruct HorT as [ET | HT]; [|right; exact HT]. subst T.
    pose proof (layout_nil_inv P _ _ LT) as EeT. subst eT.
    rewrite (@lenN_nil byte), N.add_0_r in Hpos3.
    destruct H3pos as [E3'|H3']; [left; rewrite E3'; reflexivity|right].
    rewrite Hpos3. exact H3'. }
  pose proof (H2 spaced_fpos_or _ _ _ HY) as SpY.
  assert (PD3 : Forall (present1 D) (fpos aT (T ++ F3))).
  { exact (present_hi D S ((b + 1) * B) _ Hhi PS3 (H2 spaced_all_ge _ _ SpY)). }
  set (lt := lenN (t1 ++ tb ++ t3)) in *.
  assert (Hlt : lt = aT + lenN eT + lenN t3).
  { unfold lt. rewrite Et, !lenN_app. unfold aT, aH. lia. }
  assert (HltS : lt <= lenN S) by (rewrite HS, lenN_app; unfold lt; lia).
  assert (HltE : lenN (eG ++ eC ++ tb ++ t3) = lt) by (unfold lt, t1; rewrite !lenN_app; lia).
  assert (Zlo : forall r, lt <= r -> r + 7 <= b * B -> all_zero (sliceN r (r + 7) D) = true).
  { intros r H1 H2'. rewrite (sliceN_agree_lo (b * B) r (r + 7) D S Hlo H2'), HS.
    apply slice_zero. exact H1. }
  assert (Zhi : forall r, lt <= r -> (b + 1) * B <= r -> all_zero (sliceN r (r + 7) D) = true).
  { intros r H1 H2'. rewrite (sliceN_agree_hi ((b + 1) * B) r (r + 7) D S Hhi H2'), HS.
    apply slice_zero. exact H1. }
  pose proof (ffp_le_boundary aH b HaH) as HffH.
  assert (Eff0 : ffp (lenN eG) = kb * B) by (symmetry; apply boundary_is_ffp; assumption).
  (* the clean frames between the starting boundary and block b *)
  assert (P1 : forall evs, tr D (ffp aH) evs -> tr D (kb * B) (map ev_of (C ++ H) ++ evs)).
  { intros evs Htr.
    assert (LCH : layout (lenN eG) (C ++ H) (eC ++ eH)).
    { apply (H3 layout_app _ _ _ LC). rewrite <- Ht1. exact LH. }
    assert (Eend : lenN eG + lenN (eC ++ eH) = aH) by (rewrite lenN_app; unfold aH; lia).
    assert (PDC : Forall (present1 D) (fpos (lenN eG) (C ++ H))).
    { unfold F1 in PD1. rewrite <- app_assoc, (H3 fpos_app 0 _ _ LG), N.add_0_l in PD1.
      apply Forall_app in PD1. apply PD1. }
    assert (GC : forallb fs_good (C ++ H) = true).
    { unfold F1 in G1H. rewrite <- app_assoc, forallb_app in G1H.
      apply andb_true_iff in G1H. apply G1H. }
    pose proof (H3 run_frames D Hok (lenN eG) (C ++ H) (eC ++ eH) LCH GC PDC) as R.
    rewrite Eend, Eff0 in R. apply R; [lia|exact Htr]. }
  assert (P1F : forall evs e, trA D aH evs e -> trA D (lenN eG) (map ev_of (C ++ H) ++ evs) e).
  { intros evs e Htr.
    assert (LCH : layout (lenN eG) (C ++ H) (eC ++ eH)).
    { apply (H3 layout_app _ _ _ LC). rewrite <- Ht1. exact LH. }
    assert (Eend : lenN eG + lenN (eC ++ eH) = aH) by (rewrite lenN_app; unfold aH; lia).
    assert (PDC : Forall (present1 D) (fpos (lenN eG) (C ++ H))).
    { unfold F1 in PD1. rewrite <- app_assoc, (H3 fpos_app 0 _ _ LG), N.add_0_l in PD1.
      apply Forall_app in PD1. apply PD1. }
    assert (GC : forallb fs_good (C ++ H) = true).
    { unfold F1 in G1H. rewrite <- app_assoc, forallb_app in G1H.
      apply andb_true_iff in G1H. apply G1H. }
    pose proof (trA_frames D Hok (lenN eG) (C ++ H) (eC ++ eH) LCH GC PDC) as R.
    rewrite Eend in R. apply R; [lia|exact Htr]. }
  assert (HzS : forall r, lt <= r -> (b + 1) * B <= r -> r <= lenN D ->
                  D = takeN r D ++ zerosN (lenN D - r)).
  { intros r H1 H2' H3'.
    assert (Hdz : dropN r D = zerosN (lenN D - r)).
    { replace r with ((b + 1) * B + (r - (b + 1) * B)) at 1 by lia.
      rewrite <- dropN_dropN, Hhi, dropN_dropN.
      replace ((b + 1) * B + (r - (b + 1) * B)) with r by lia.
      rewrite HS, dropN_app_ge by (fold lt; lia). rewrite FileStream.dropN_zerosN. f_equal.
      assert (HlD : lenN D = lt + z) by (rewrite HlenD, HS, lenN_app, lenN_zerosN; reflexivity).
      fold lt. lia. }
    rewrite <- Hdz. symmetry. apply takeN_dropN. }
  (* the clean frames after block b, to the end of the log *)
  assert (P3F : (b + 2) * B <= lenN D ->
                trA D ((b + 1) * B) (map ev_of (T ++ F3)) (N.max ((b + 1) * B) lt)).
  { intros Hlen2.
    assert (Hbase : lt <= (b + 1) * B -> trA D ((b + 1) * B) [] (N.max ((b + 1) * B) lt)).
    { intros Hle. replace (N.max ((b + 1) * B) lt) with ((b + 1) * B) by lia.
      apply (trA_end_gen D (takeN ((b + 1) * B) D) (lenN D - (b + 1) * B)).
      - apply HzS; lia.
      - rewrite lenN_takeN. lia. }
    destruct HY as [EY|HYr].
    - rewrite EY in LY |- *. cbn [map]. apply (layout_nil_inv P) in LY.
      apply (f_equal lenN) in LY. rewrite lenN_app, (@lenN_nil byte) in LY.
      apply Hbase. lia.
    - pose proof (boundary_is_ffp aT (b + 1) HaT HYr) as Eff.
      apply (trA_shift D ((b + 1) * B) aT _ _ Hok); [rewrite ffp_aligned; exact Eff|rewrite ffp_aligned; lia|].
      rewrite <- (app_nil_r (map ev_of (T ++ F3))).
      assert (Eend : aT + lenN (eT ++ t3) = lt) by (rewrite lenN_app; lia).
      apply (trA_frames D Hok aT _ _ LY GY PD3); rewrite Eend; [lia|].
      destruct (N.le_gt_cases ((b + 1) * B) lt) as [Hge|Hlt'].
      + replace (N.max ((b + 1) * B) lt) with lt by lia.
        apply (trA_end_gen D (takeN lt D) (lenN D - lt)); [apply HzS; lia|rewrite lenN_takeN; lia].
      + apply (trA_shift D lt ((b + 1) * B) _ _ Hok).
        * rewrite ffp_aligned. rewrite Eff. apply (H2 TornFile.ffp_between); lia.
        * rewrite (H2 TornFile.ffp_between aT lt) by lia. rewrite <- Eff. lia.
        * apply Hbase. lia. }
  assert (Hstart : forall evs, tr D (kb * B) evs -> ftrace (rd_at D kb 0) evs).
  { intros evs (k & c & Hr & Hc & Hblk & Hft).
    destruct (kc_unique kb 0 k c) as [<- <-]; [lia|lia|lia|]. exact Hft. }
  assert (Hkblk : (kb + 1) * B <= lenN D).
  { assert (Hk1 : kb + 1 <= b + 1) by lia. pose proof (mulB_le _ _ Hk1). lia. }
  assert (HstartF : forall evs e, trA D (lenN eG) evs e -> endsAt D (rd_at D kb 0) evs e).
  { intros evs e Htr. apply (trA_norm D (lenN eG) evs e kb 0 Hok Htr); [rewrite Eff0; lia|lia|exact Hkblk]. }
  destruct (thin_oks H true) as (c1 & ThH).
  destruct (N.lt_ge_cases (ffp aH) (b * B)) as [HA|HBge].
  - (* the data ends before block b: the damaged block is never decoded as data *)
    destruct HorH as [EX|Hge]; [|lia]. subst X2.
    symmetry in EX2. apply app_eq_nil in EX2 as [EXb ET].
    pose proof (layout_nil_inv P _ _ LX2) as Ee2'.
    assert (He2 : lenN e2 = 0) by (rewrite Ee2'; reflexivity).
    assert (E3' : F3 = []).
    { destruct H3pos as [E|Hge]; [exact E|exfalso].
      rewrite Etb, lenN_app, He2, N.add_0_r in Hge. fold aH in Hge. lia. }
    subst F3. pose proof (layout_nil_inv P _ _ L3) as Et3.
    assert (Hlt' : lt = aH).
    { unfold lt. rewrite Etb, Et3, !lenN_app, He2, !(@lenN_nil byte). unfold aH. lia. }
    assert (Htr : tr D (ffp aH) []).
    { destruct (pad_geom aH) as (k' & c' & Hp & Hc' & _).
      unfold first_frame_pos in HA |- *. rewrite Hp in HA |- *.
      pose proof (blocks_above b k' (c' + 1)) as Hbl.
      apply (H3 tr_zero); [exact Hc'|lia|]. apply Zlo; lia. }
    assert (HtrF : trA D aH [] aH).
    { destruct (pad_geom aH) as (k' & c' & Hp & Hc' & _).
      pose proof HA as HA'. unfold first_frame_pos in HA'. rewrite Hp in HA'.
      pose proof (blocks_above b k' (c' + 1)) as Hbl.
      apply (trA_zero D aH k' c' Hok Hp Hc'); [lia|]. apply Zlo; lia. }
    pose proof (HstartF _ _ (P1F _ _ HtrF)) as Hft.
    exists (map ev_of H), c1. left. rewrite EFb, app_nil_r. split; [exact ThH|].
    exists aH. split.
    + cbn [map]. rewrite !app_nil_r in *. rewrite map_app in Hft. exact Hft.
    + intros Hbig. exfalso. rewrite HltE in Hbig. lia.
  - (* the reader enters block b at its start *)
    assert (Eff : ffp aH = b * B) by lia.
    assert (Hfits : Forall (fits1 P) (fpos 0 xs)) by exact (H3 layout_fits _ _ _ Lxs).
    rewrite Exs in Hne.
    destruct (chainF D b xs Hb Hne Hfits (N.to_nat B) 0 ltac:(lia) ltac:(lia) (reach_0 P D b) c1
                (fpos 0 (F1 ++ H)) (fpos aH Xb ++ fpos aT (T ++ F3)) Hfp)
      as (evs2 & Rc & R' & st' & ER & Hth & HF & Hout).
    { eapply Forall_impl; [|exact (H3 fpos_bounds _ _ _ L1H)]. intros qx [_ Hq]. unfold qend in Hq. lia. }
    { rewrite <- (H3 fpos_app aH _ _ LXb). apply (H2 spaced_fpos). lia. }
    destruct (H2 split_prefix ((b + 1) * B) Rc R' (fpos aH Xb) (fpos aT (T ++ F3)) HF SpY (eq_sym ER))
      as (M' & EXb & ER').
    assert (EXb' : Xb = map snd Rc ++ map snd M').
    { rewrite <- (map_snd_fpos P Xb aH), EXb, map_app. reflexivity. }
    destruct Hout as [[Hstop Hst] | (Hlen2 & Hsp & Hcont)].
    + (* the reader stopped inside block b *)
      assert (Htr : tr D (ffp aH) evs2).
      { rewrite Eff. exists b, 0. repeat split; try lia. exact Hstop. }
      pose proof (Hstart _ (P1 _ Htr)) as Hft.
      exists (map ev_of H ++ evs2), st'. right.
      exists (H ++ map snd Rc), (map snd M' ++ T).
      split; [rewrite EFb, EX2, EXb', <- !app_assoc; reflexivity|].
      split; [exact (thin_app _ _ _ _ ThH _ _ _ Hth)|].
      split; [|exact Hst].
      rewrite map_app, <- !app_assoc in Hft. exact Hft.
    + (* the reader went on to block b + 1 *)
      assert (EM : M' = []).
      { destruct M' as [|m0 M']; [reflexivity|exfalso].
        rewrite ER' in Hsp. destruct Hsp as [Hm _].
        pose proof (H3 fpos_bounds _ _ _ LXb) as Hbd. rewrite Forall_forall in Hbd.
        destruct (Hbd m0) as [_ Hq].
        { rewrite EXb. apply in_or_app. right. left. reflexivity. }
        unfold qend in Hq. fold aT in Hq. lia. }
      subst M'. rewrite app_nil_r in EXb'. rewrite <- EXb' in Hth.
      pose proof (Hcont _ _ (P3F Hlen2)) as Hft.
      assert (Htr : trA D aH (evs2 ++ map ev_of (T ++ F3)) (N.max ((b + 1) * B) lt)).
      { apply (trA_of_norm D aH _ _ b 0 Hok); [rewrite Eff; lia|lia|exact Hb|exact Hft]. }
      pose proof (HstartF _ _ (P1F _ _ Htr)) as Hft0.
      destruct (thin_oks T st') as (c3 & ThT).
      exists (map ev_of H ++ evs2 ++ map ev_of T), c3. left.
      split.
      { rewrite EFb, EX2. exact (thin_app _ _ _ _ ThH _ _ _ (thin_app _ _ _ _ Hth _ _ _ ThT)). }
      exists (N.max ((b + 1) * B) lt). split.
      * rewrite !map_app, <- !app_assoc in Hft0. rewrite <- !app_assoc. exact Hft0.
      * intros Hbig. rewrite HltE in Hbig |- *. lia.
Qed.

(* ---------- the entry that straddles the starting boundary ---------- *)
(* cf. DamageFile.enc_any_split_at_block, with the frames *)
Lemma enc_any_split_frames a f p xs e :
  enc_any a f p xs e ->
  forall kb, ffp a < kb * B -> kb * B <= a + lenN e ->
    kb * B = a + lenN e \/
    exists xs1 xs2 e1 e2 p2,
      xs = xs1 ++ xs2 /\ e = e1 ++ e2 /\ a + lenN e1 = kb * B /\
      layout a xs1 e1 /\ enc_any (kb * B) false p2 xs2 e2.
Proof.
  induction 1 as [a f p x Hd Hff | a f p x xs e Hd Hff Hr IH]; intros kb Hlo Hhi;
    pose proof (H3 DamageFile.lenN_fs_bytes _ _ _ _ _ Hff) as Hlx; unfold first_frame_pos in Hlo;
    destruct (pad_geom a) as (k' & c' & Hp & Hc' & Hmw & _).
  - left. rewrite lenN_app, Hlx in *.
    pose proof (H3 DamageProofs.chunk_fits a p) as Hch.
    pose proof (blocks_above kb k' (c' + 1)) as Hb. lia.
  - rewrite !lenN_app, Hlx in *.
    pose proof (H3 ResyncProofs.chunk_full a p Hd) as Hch.
    pose proof (blocks_above kb k' (c' + 1)) as Hb.
    set (a' := a + lenN (pad_of a) + 7 + StreamProofs.chunk_of P a p) in *.
    assert (Ha' : a' = (k' + 1) * B) by (unfold a'; lia).
    assert (L1 : layout a [x] (pad_of a ++ fs_bytes x)).
    { destruct Hff as (_ & Hc4 & Hl & _).
      rewrite <- (app_nil_r (fs_bytes x)). apply LY_cons; [exact Hc4| |constructor].
      rewrite Hl. apply (H3 DamageProofs.chunk_fits). }
    destruct (N.eq_dec (kb * B) a') as [E|E].
    + right. exists [x], xs, (pad_of a ++ fs_bytes x), e, (dropN (StreamProofs.chunk_of P a p) p).
      split; [reflexivity|]. split; [now rewrite <- app_assoc|].
      split; [rewrite lenN_app, Hlx; unfold a' in E; lia|].
      split; [exact L1|]. rewrite E; exact Hr.
    + assert (Hffp : ffp a' = a') by (rewrite Ha'; apply ffp_aligned).
      destruct (IH kb) as [Hend | (xs1 & xs2 & e1 & e2 & p2 & Hx & He & Hl & Lx1 & Hrel)].
      * rewrite Hffp. lia.
      * lia.
      * left. lia.
      * right. exists (x :: xs1), xs2, (pad_of a ++ fs_bytes x ++ e1), e2, p2.
        split; [rewrite Hx; reflexivity|].
        split; [rewrite He, <- !app_assoc; reflexivity|].
        split; [rewrite !lenN_app, Hlx; unfold a' in Hl; lia|].
        split; [|exact Hrel].
        destruct Hff as (_ & Hc4 & Hlp & _).
        apply LY_cons; [exact Hc4|rewrite Hlp; apply (H3 DamageProofs.chunk_fits)|].
        rewrite Hlp. exact Lx1.
Qed.

(* the entries pxs0 all begin before the boundary kb * B: either they also end before it, or
   the last one straddles it and A1 are its frames from the boundary on *)
Lemma encs_any_boundary a pxs0 t0 kb :
  encs_any a pxs0 t0 -> a <= kb * B ->
  Forall (fun s => snd s < kb * B) (starts P a (map fst pxs0)) ->
  a + lenN t0 <= kb * B \/
  exists A0 A1 e0 e2 p2,
    flat_map snd pxs0 = A0 ++ A1 /\ t0 = e0 ++ e2 /\ a + lenN e0 = kb * B /\
    layout a A0 e0 /\ enc_any (kb * B) false p2 A1 e2.
Proof.
  intros Hes Ha Hall.
  induction pxs0 as [|[x xs] pxs' _] using rev_ind.
  - left. inversion Hes; subst. rewrite (@lenN_nil byte). lia.
  - destruct (H3 encs_any_app_inv pxs' a [(x, xs)] t0 Hes) as (t1' & tx & -> & Hes' & Hx).
    inversion Hx as [|a0 p0 xs0 ex pxs0 t'' Hex Hnil]; subst.
    inversion Hnil; subst. rewrite app_nil_r in *.
    rewrite map_app, (H3 starts_app) in Hall. apply Forall_app in Hall as [_ Hlast].
    rewrite (H3 encs_any_cursor _ _ _ Hes') in Hlast. cbn [map starts fst] in Hlast.
    inversion Hlast as [|s l Hs _]; subst. cbn [snd] in Hs.
    rewrite lenN_app.
    destruct (N.le_gt_cases (kb * B) (a + lenN t1' + lenN ex)) as [Hle|Hgt]; [|left; lia].
    destruct (enc_any_split_frames _ _ _ _ _ Hex kb Hs Hle)
      as [Hend | (xs1 & xs2 & e1 & e2 & p2 & Hxs & He & Hl & Lx1 & Hrel)].
    + left. lia.
    + right. exists (flat_map snd pxs' ++ xs1), xs2, (t1' ++ e1), e2, p2.
      split; [rewrite flat_map_app; cbn [flat_map snd]; rewrite app_nil_r, Hxs, <- app_assoc; reflexivity|].
      split; [rewrite He, <- app_assoc; reflexivity|].
      split; [rewrite lenN_app; lia|].
      split; [|exact Hrel].
      apply (H3 layout_app _ _ _ (H3 encs_any_layout _ _ _ Hes')). exact Lx1.
Qed.

(* ---------- the theorem, on a frame decomposition of the entries ---------- *)
(* pxs0: the entries whose first frame lies before the starting boundary kb * B (the last one
   may reach anywhere); pxs1: entries from the boundary on that end at or before block b;
   pxs3: entries that begin at or after the end of block b; pxsb: those in between.
   The reader started at block kb (<= b) delivers all of pxs1, a sub-list of pxsb, and all of
   pxs3, and ends where the clean reader ends — or, if it stopped inside block b, nothing after. *)
Theorem header_damage_from_core pxs0 pxs1 pxsb pxs3 t0 t1 tb t3 z D b kb :
  encs_any 0 pxs0 t0 -> forallb intact pxs0 = true ->
  encs_any (lenN t0) pxs1 t1 -> forallb intact pxs1 = true ->
  encs_any (lenN t0 + lenN t1) pxsb tb -> forallb intact pxsb = true ->
  encs_any (lenN t0 + lenN t1 + lenN tb) pxs3 t3 -> forallb intact pxs3 = true ->
  stream_ok ((t0 ++ t1 ++ tb ++ t3) ++ zerosN z) ->
  lenN D = lenN ((t0 ++ t1 ++ tb ++ t3) ++ zerosN z) ->
  takeN (b * B) D = takeN (b * B) ((t0 ++ t1 ++ tb ++ t3) ++ zerosN z) ->
  dropN ((b + 1) * B) D = dropN ((b + 1) * B) ((t0 ++ t1 ++ tb ++ t3) ++ zerosN z) ->
  (b + 1) * B <= lenN D ->
  Forall (fun s => snd s < kb * B) (starts P 0 (map fst pxs0)) ->
  kb * B <= ffp (lenN t0) -> kb <= b ->
  (pxs1 = [] \/ lenN t0 + lenN t1 <= b * B) ->
  (pxs3 = [] \/ (b + 1) * B <= ffp (lenN t0 + lenN t1 + lenN tb)) ->
  NoEmbeddedPathX P D b (flat_map snd (pxs0 ++ pxs1 ++ pxsb ++ pxs3)) ->
  exists evs mid tail,
    ftrace (rd_at D kb 0) evs /\
    delivered (asm evs [] false) = map fst pxs1 ++ mid ++ tail /\
    sublistD mid (map fst pxsb) /\
    ((tail = map fst pxs3 /\
      exists e, endsAt D (rd_at D kb 0) evs e /\
                ((b + 1) * B <= lenN (t0 ++ t1 ++ tb ++ t3) -> e = lenN (t0 ++ t1 ++ tb ++ t3))) \/
     (tail = [] /\ stopped_in P D b)).
Proof.
  intros E0 G0 E1 G1 Eb Gb E3 G3 HokS HlenD Hlo Hhi Hb Hst0 Hst1 Hkb H1pos H3pos Hne.
  pose proof (H3 encs_any_layout _ _ _ E0) as L0.
  pose proof (H3 encs_any_layout _ _ _ E1) as L1.
  pose proof (H3 encs_any_layout _ _ _ Eb) as Lb.
  pose proof (H3 encs_any_layout _ _ _ E3) as L3.
  set (F0 := flat_map snd pxs0) in *. set (F1 := flat_map snd pxs1) in *.
  set (Fb := flat_map snd pxsb) in *. set (F3 := flat_map snd pxs3) in *.
  assert (Exs : flat_map snd (pxs0 ++ pxs1 ++ pxsb ++ pxs3) = F0 ++ F1 ++ Fb ++ F3)
    by (rewrite !flat_map_app; reflexivity).
  rewrite Exs in Hne.
  assert (Gall : forallb fs_good (F0 ++ F1 ++ Fb ++ F3) = true).
  { rewrite !forallb_app. unfold F0, F1, Fb, F3.
    rewrite (intact_flat P _ G0), (intact_flat P _ G1), (intact_flat P _ Gb), (intact_flat P _ G3).
    reflexivity. }
  assert (H3posF : F3 = [] \/ (b + 1) * B <= ffp (lenN t0 + lenN t1 + lenN tb)).
  { destruct H3pos as [->|H]; [left; reflexivity|right; exact H]. }
  assert (Hkbb : kb * B <= b * B) by (apply mulB_le; exact Hkb).
  set (LT := lenN (t0 ++ t1 ++ tb ++ t3)).
  (* what is left to do once the frame trace is known *)
  assert (Fin : forall q p2 A1 e2 C M,
            (A1 = [] \/ enc_any q false p2 A1 e2) -> forallb fs_good A1 = true ->
            ((C = A1 ++ F1 /\ M = Fb) \/ (C = [] /\ pxs1 = [] /\ M = A1 ++ Fb)) ->
            (exists evM c',
               (thin true M evM c' /\
                exists e, endsAt D (rd_at D kb 0) (map ev_of C ++ evM ++ map ev_of F3) e /\
                          ((b + 1) * B <= LT -> e = LT)) \/
               (exists Mp Ms, M = Mp ++ Ms /\ thin true Mp evM c' /\
                              ftrace (rd_at D kb 0) (map ev_of C ++ evM) /\ stopped_in P D b)) ->
            exists evs mid tail,
              ftrace (rd_at D kb 0) evs /\
              delivered (asm evs [] false) = map fst pxs1 ++ mid ++ tail /\
              sublistD mid (map fst pxsb) /\
              ((tail = map fst pxs3 /\
                exists e, endsAt D (rd_at D kb 0) evs e /\ ((b + 1) * B <= LT -> e = LT)) \/
               (tail = [] /\ stopped_in P D b))).
  { intros q p2 A1 e2 C M HA GA Hshape (evM & c' & [[Hth (e & Hft & He)] | (Mp & Ms & EM & Hth & Hft & Hstop)]).
    - destruct (finish_core P q p2 A1 e2 _ _ _ _ _ _ _ _ _ C M evM c' HA GA E1 G1 Eb Gb E3 G3 Hshape Hth)
        as (mid & Hdel & Hsub).
      exists (map ev_of C ++ evM ++ map ev_of F3), mid, (map fst pxs3).
      split; [exact (endsAt_ftrace _ _ _ _ Hft)|]. split; [exact Hdel|]. split; [exact Hsub|].
      left. split; [reflexivity|]. exists e. split; [exact Hft|exact He].
    - pose proof (thin_stop _ _ _ _ Ms Hth) as Hth'. rewrite <- EM in Hth'.
      destruct (finish_core P q p2 A1 e2 _ _ _ _ _ _ 0 [] [] C M (evM ++ [EvBad]) false HA GA E1 G1 Eb Gb
                  (EAS_nil P 0) eq_refl Hshape Hth') as (mid & Hdel & Hsub).
      exists (map ev_of C ++ evM), mid, [].
      split; [exact Hft|]. split; [|split; [exact Hsub|right; split; [reflexivity|exact Hstop]]].
      cbn [flat_map map] in Hdel. rewrite !app_nil_r in Hdel. rewrite app_nil_r, <- Hdel.
      rewrite (app_assoc (map ev_of C) evM [EvBad]). symmetry. apply asm_snoc_bad. }
  destruct (encs_any_boundary 0 pxs0 t0 kb E0 ltac:(lia) Hst0)
    as [HL | (A0 & A1 & e0 & e2 & p2 & EF0 & Et0 & He0 & LA0 & EA1)].
  - (* the entries before the boundary end before it *)
    rewrite N.add_0_l in HL.
    assert (HposM : lenN t0 + lenN t1 <= b * B).
    { destruct H1pos as [->|H]; [|exact H].
      rewrite (encs_any_nil_inv P _ _ E1), (@lenN_nil byte). lia. }
    apply (Fin 0 [] [] [] F1 Fb (or_introl eq_refl) eq_refl (or_introl (conj eq_refl eq_refl))).
    exact (frames_from F0 F1 Fb F3 t0 t1 tb t3 z D b kb L0 L1 Lb L3 Gall HokS HlenD Hlo Hhi Hb
             HL Hst1 Hkb HposM H3posF Hne).
  - rewrite N.add_0_l in He0. fold F0 in EF0.
    assert (GA1 : forallb fs_good A1 = true).
    { pose proof (intact_flat P _ G0) as G. fold F0 in G. rewrite EF0, forallb_app in G.
      apply andb_true_iff in G. apply G. }
    assert (LA1 : layout (lenN e0) A1 e2) by (rewrite He0; exact (H3 enc_any_layout _ _ _ _ _ EA1)).
    assert (Hlt0 : lenN t0 = lenN e0 + lenN e2) by (rewrite Et0, lenN_app; reflexivity).
    assert (HposC : kb * B <= ffp (lenN e0)) by (rewrite He0, ffp_aligned; lia).
    destruct (N.le_gt_cases (lenN t0 + lenN t1) (b * B)) as [HposM|Hbig].
    + (* the straddling entry and pxs1 end before block b *)
      apply (Fin (kb * B) p2 A1 e2 (A1 ++ F1) Fb (or_intror EA1) GA1 (or_introl (conj eq_refl eq_refl))).
      assert (LC : layout (lenN e0) (A1 ++ F1) (e2 ++ t1)).
      { apply (H3 layout_app _ _ _ LA1). rewrite <- Hlt0. exact L1. }
      assert (ElC : lenN e0 + lenN (e2 ++ t1) = lenN t0 + lenN t1) by (rewrite lenN_app; lia).
      assert (ES : (t0 ++ t1 ++ tb ++ t3) = (e0 ++ (e2 ++ t1) ++ tb ++ t3))
        by (rewrite Et0, <- !app_assoc; reflexivity).
      unfold LT. rewrite ES. rewrite ES in HokS, HlenD, Hlo, Hhi.
      rewrite EF0, <- app_assoc, (app_assoc A1 F1) in Hne, Gall.
      apply (frames_from A0 (A1 ++ F1) Fb F3 e0 (e2 ++ t1) tb t3 z D b kb LA0 LC);
        rewrite ?ElC; try assumption; lia.
    + (* the straddling entry reaches into block b (or beyond) *)
      assert (Ep1 : pxs1 = []) by (destruct H1pos as [E|H]; [exact E|lia]).
      assert (Et1 : t1 = []) by (subst pxs1; exact (encs_any_nil_inv P _ _ E1)).
      assert (EF1 : F1 = []) by (unfold F1; rewrite Ep1; reflexivity).
      apply (Fin (kb * B) p2 A1 e2 [] (A1 ++ Fb) (or_intror EA1) GA1
               (or_intror (conj eq_refl (conj Ep1 eq_refl)))).
      rewrite Et1, (@lenN_nil byte), N.add_0_r in *.
      assert (LM : layout (lenN e0 + lenN (@nil byte)) (A1 ++ Fb) (e2 ++ tb)).
      { rewrite (@lenN_nil byte), N.add_0_r. apply (H3 layout_app _ _ _ LA1). rewrite <- Hlt0. exact Lb. }
      assert (ElM : lenN e0 + lenN (@nil byte) + lenN (e2 ++ tb) = lenN t0 + lenN tb)
        by (rewrite lenN_app, (@lenN_nil byte); lia).
      assert (ES : (t0 ++ [] ++ tb ++ t3) = (e0 ++ [] ++ (e2 ++ tb) ++ t3))
        by (rewrite Et0; cbn [app]; rewrite <- !app_assoc; reflexivity).
      unfold LT. rewrite ?Et1, ES. rewrite ES in HokS, HlenD, Hlo, Hhi.
      rewrite EF0, EF1 in Hne, Gall. cbn [app] in Hne, Gall.
      rewrite <- app_assoc, (app_assoc A1 Fb) in Hne, Gall.
      apply (frames_from A0 [] (A1 ++ Fb) F3 e0 [] (e2 ++ tb) t3 z D b kb LA0 (LY_nil P _) LM);
        rewrite ?ElM, ?(@lenN_nil byte), ?N.add_0_r; try assumption; try lia.
Qed.

End StreamB.

Print Assumptions reads_of_ftraceF.
Print Assumptions frames_from.
Print Assumptions header_damage_from_core.

(* ====================================================================== *)
(* Part D. the rolling files                                               *)
(* ====================================================================== *)
Lemma sublist_map_inv {A C} (f : A -> C) : forall (E : list A) (l : list C),
  sublistD l (map f E) -> exists E', l = map f E' /\ sublistD E' E.
Proof.
  induction E as [|e E IH]; intros l H; cbn [map] in H.
  - inversion H; subst. exists []. split; [reflexivity|constructor].
  - inversion H as [|x l1 l2 H1|x l1 l2 H1]; subst.
    + destruct (IH _ H1) as (E' & -> & HE'). exists E'. split; [reflexivity|now constructor].
    + destruct (IH _ H1) as (E' & -> & HE'). exists (e :: E'). split; [reflexivity|now constructor].
Qed.

Lemma sublistD_refl {A} (l : list A) : sublistD l l.
Proof. induction l; constructor; assumption. Qed.

Lemma sublistD_nil_l {A} (l : list A) : sublistD [] l.
Proof. induction l; constructor; assumption. Qed.

Lemma sublistD_app {A} (a a' : list A) : sublistD a a' ->
  forall b b', sublistD b b' -> sublistD (a ++ b) (a' ++ b').
Proof.
  induction 1 as [|x l1 l2 H IH|x l1 l2 H IH]; intros b b' Hb; cbn [app].
  - exact Hb.
  - apply SL_skip. apply IH. exact Hb.
  - apply SL_keep. apply IH. exact Hb.
Qed.

Lemma sublistD_Forall {A} (Q : A -> Prop) (l l' : list A) : sublistD l l' -> Forall Q l' -> Forall Q l.
Proof.
  induction 1 as [|x l1 l2 H IH|x l1 l2 H IH]; intros HF.
  - constructor.
  - apply IH. now inversion HF.
  - inversion HF; subst. constructor; [assumption|now apply IH].
Qed.

Section FilesD.
Variable P : params.
Hypothesis HBS_lo : 7 < BS P.
Hypothesis HBS_hi : BS P <= 65542.
Hypothesis HNB : 1 <= NB P.
Hypothesis Hcrc : forall t p, crcf P t p < 2 ^ 32.
Local Notation B := (BS P).
Local Notation FB := (FILE_BYTES P).
Local Notation ffp := (first_frame_pos P).
Local Notation readsC := (reads_trc P (vr_next P) vr_block).
Local Notation readsFc := (reads_trc P (rd_next P) rd_block).
Local Notation H3 f := (f P HBS_lo HBS_hi Hcrc) (only parsing).
Local Notation H2 f := (f P HBS_lo HBS_hi) (only parsing).
Local Notation HN f := (f P HBS_lo HBS_hi HNB) (only parsing).

Section Dir.
Variable fs : fsT.
Variable lo : N.
Variable n : nat.
Local Notation files := (iota lo (Datatypes.S n)).
Local Notation cur := (lo + N.of_nat n).
Hypothesis Hfull : forall f, In f files ->
  exists b, fs_get fs (filename f) = Some (FFile b) /\ lenN b = FB.

Local Notation St := (stream_of fs files).
Local Notation rsim := (rd_rel P fs files).
Local Notation rrsim := (rr_sim rreaderS vecr rsim).
Local Notation HD f := (f P HBS_lo HBS_hi HNB fs lo n Hfull) (only parsing).

(* what `open` builds from the kept files when the reader may have lost its way: the files
   `tags` the k replayed entries are attributed to, and the writer w0 made of the final reader.
   This is DamageFile.dmg_spec without the positions (of the entries, of the end of the log). *)
Definition hd_spec (w0 : rwriter) (tags : list N) (k : nat) : Prop :=
  length tags = k /\
  StronglySorted N.le tags /\
  Forall (fun f => lo <= f /\ f <= w_file w0) tags /\
  w_files w0 = files /\ lo <= w_file w0 /\ w_file w0 <= cur /\
  w_pending w0 = [] /\ c_fs (w_ctx w0) = fs /\ c_plan (w_ctx w0) = None.

Section Kept.
Variables (base : N) (D : bytes).
Hypothesis Hbase : base <= lo.
Hypothesis Hlist : list_wal_numbers fs = files.
Hypothesis HSt : St = dropN ((lo - base) * FB) D.
Hypothesis HlenS : lenN D = (cur - base + 1) * FB.

Local Notation b := ((lo - base) * FB).
Local Notation kb := ((lo - base) * NB P).

(* any vecr trace from the boundary, to the rolling files (cf. DamageFile.trace_to_files) *)
Lemma trace_to_files_weak g rrs ds c rrfV :
  length rrs = length ds ->
  readsC g (mkRR (rd_at P D kb 0) [] false) (combine rrs ds) c rrfV ->
  exists c0 rd lF rrfF,
    rd_open P (ctx_init fs None) = (c0, Ok rd) /\
    readsFc g (rr_open rreaderS rd) lF c rrfF /\
    map snd lF = ds /\
    hd_spec (rd_into_writer P (fr_rd (rr_fr rrfF)) (fr_cursor (rr_fr rrfF))) (tags_of lF) (length ds).
Proof.
  intros Hlen HrdV.
  assert (Hkb : kb * B = b) by (rewrite (HN FB_eq); lia).
  assert (HlenSt : lenN St + kb * B = lenN D).
  { rewrite (HD lenN_St), HlenS, Hkb.
    replace (lo + N.of_nat n - base + 1) with ((N.of_nat n + 1) + (lo - base)) by lia. lia. }
  assert (HFB : B <= FB) by (rewrite (HN FB_eq); nia).
  assert (Hblk : (kb + 1) * B <= lenN D).
  { rewrite <- HlenSt, (HD lenN_St). nia. }
  destruct (rd_open_sim P ltac:(lia) HNB fs files (iota_sorted _ _) Hfull (ctx_init fs None))
    as (c0 & rd & Hopen & Hrel); [split; reflexivity | exact Hlist | discriminate |].
  pose proof (rr_open_sim rreaderS vecr rsim rd _ Hrel) as Hsim0.
  assert (Hstart : rr_open vecr (vec_at P fs files 0) = mkRR (rd_at P D kb 0) [] false).
  { unfold rr_open, fr_open. f_equal.
    change (mkFR (vec_at P fs files 0) 0 false) with (rd_at P St 0 0).
    rewrite HSt. rewrite <- Hkb, (rd_at_drop P HBS_lo HBS_hi HNB Hcrc). f_equal. lia. }
  rewrite Hstart in Hsim0.
  destruct (HD reads_trc_FV g _ _ _ _ HrdV _ Hsim0) as (lF & rrfF & HrdF & Hall & Hfin).
  pose proof (Forall2_length' _ _ _ Hall) as HlenF.
  rewrite combine_length, Hlen, Nat.min_id in HlenF.
  exists c0, rd, lF, rrfF.
  split; [exact Hopen|]. split; [exact HrdF|].
  split.
  { rewrite <- (map_snd_combine rrs ds) by exact Hlen.
    apply (map_snd_Forall2 _ _ _ Hall). }
  unfold hd_spec.
  set (w0 := rd_into_writer P (fr_rd (rr_fr rrfF)) (fr_cursor (rr_fr rrfF))).
  destruct (H2 reads_trc_rest g _ _ _ _ HrdV) as (Hrest_fin & Hrest_all & Hrest_sorted).
  pose proof Hfin as Hfin0.
  destruct Hfin as ((Hrfin & Hcur & _) & _ & _).
  destruct (HD rd_rel_idx _ _ Hrfin) as (Hcok & Hfl & i & j & Hfile & Hi & Hj & Hid & Hl).
  assert (Hwfile : w_file w0 = lo + i) by exact Hfile.
  split; [rewrite tags_of_length; exact HlenF|].
  split.
  { apply StronglySorted_map.
    eapply StronglySorted_Forall2; [|exact Hall|exact Hrest_sorted].
    cbn beta. intros x y x' y' [Hxy _] [Hxy' _] Hle. eapply (HD sim_tag_le); eassumption. }
  split.
  { apply Forall_map.
    eapply Forall2_Forall_l; [|exact Hall|exact Hrest_all].
    cbn beta. intros x y [Hxy _] [_ Hle]. split.
    - apply (HD sim_tag_lo _ _ Hxy).
    - change (w_file w0) with (tag_of rrfF).
      eapply (HD sim_tag_le); [exact Hxy|exact Hfin0|exact Hle]. }
  split; [exact Hfl|]. split; [lia|]. split; [lia|].
  split; [reflexivity|]. destruct Hcok as [Hcfs Hcplan].
  split; [exact Hcfs | exact Hcplan].
Qed.

(* ... and to `open` (cf. DamageFile.open_of_trace_end) *)
Lemma open_of_trace_weak F rrs ds c rrfV Ds pol hint :
  L_IO P = false ->
  length rrs = length ds ->
  readsC F (mkRR (rd_at P D kb 0) [] false) (combine rrs ds) c rrfV ->
  ds = map entry_ser Ds -> Forall wf_entry Ds -> (length ds + c < F)%nat ->
  exists w0 tags,
    hd_spec w0 tags (length Ds) /\
    match replay_entries [] (combine tags Ds) with
    | Some qs => open P fs None pol hint = open_finish P w0 qs pol hint
    | None => exists c', open P fs None pol hint = OpenCorruption c'
    end.
Proof.
  intros Hio Hlen HrdV Hds Hwf HF.
  destruct (trace_to_files_weak F rrs ds c rrfV Hlen HrdV)
    as (c0 & rd & lF & rrfF & Hopen & HrdF & Hsnd & Hspec).
  set (w0 := rd_into_writer P (fr_rd (rr_fr rrfF)) (fr_cursor (rr_fr rrfF))) in *.
  exists w0, (tags_of lF). split; [rewrite Hds, map_length in Hspec; exact Hspec|].
  assert (Hdeser : Forall2 (fun x e0 => entry_deser (snd x) = Some e0) lF Ds).
  { apply deser_of_map_snd; [rewrite Hsnd; exact Hds | exact Hwf]. }
  assert (HlF : length lF = length ds) by (rewrite <- Hsnd, map_length; reflexivity).
  pose proof (replay_loop_fold_c P F _ _ _ _ HrdF Ds Hdeser F [] ltac:(lia)) as Hfold.
  destruct (replay_entries [] (combine (tags_of lF) Ds)) as [qs|].
  - apply (HD open_fuel_elim F); [exact Hio | | apply open_finish_not_fuel].
    unfold open_with. rewrite Hopen, Hfold. reflexivity.
  - destruct Hfold as [rr' Hfold]. exists (reader_ctx rr').
    apply (HD open_fuel_elim F); [exact Hio | | discriminate].
    unfold open_with. rewrite Hopen, Hfold. reflexivity.
Qed.

End Kept.

(* ---------- (1) open on the kept files, one block of which holds arbitrary bytes ---------- *)
(* Ghost setting as in DamageFile.open_damaged: the WAL is one byte stream numbered from file
   `base`; T = t0 ++ t1 ++ tb ++ t3 is what the writer produced for the (well-formed) entries
   E_pre ++ E_1 ++ E_b ++ E_3, S = T ++ zeros fills the files base..cur; the directory holds the
   full-size files lo..cur, which are the tail, from the block boundary b = (lo - base) * FILE,
   of D, where D is S with ARBITRARY bytes in block blk (a block of a kept file).
     E_pre : the entries whose first frame lies before b (in a file that is gone);
     E_1   : entries from b on that end at or before block blk;
     E_3   : entries that begin at or after the end of block blk;
     E_b   : those in between (any such decomposition will do: E_1 = E_3 = [] is one).
   Under NoEmbeddedPath, open does not run out of fuel and replays E_1 ++ E_mid ++ E_tail, with
   E_mid a sub-list of E_b and E_tail = E_3 — or E_tail = [] if the reader stopped inside block
   blk (it met an all-zero header there, which reads as the end of the log, or blk is the last
   block).  It fails with Corruption only if the replay of that sub-log does.  In the first
   case, if block blk lies inside the written bytes, the writer w0 that open builds stands where
   the writer of the clean directory stands (DamageFile.dmg_spec with end of log |T|; the
   positions sts attached to the tags are not the first-frame positions of the entries: only
   the clause on w0 is informative); in general only hd_spec is known of w0 and the tags. *)
Theorem open_header_damaged base E_pre E_1 E_b E_3 t0 t1 tb t3 z D blk pol hint :
  L_IO P = false ->
  base <= lo ->
  list_wal_numbers fs = files ->
  Forall wf_entry (E_1 ++ E_b ++ E_3) ->
  encs_rel P 0 (map entry_ser E_pre) t0 ->
  encs_rel P (lenN t0) (map entry_ser E_1) t1 ->
  encs_rel P (lenN t0 + lenN t1) (map entry_ser E_b) tb ->
  encs_rel P (lenN t0 + lenN t1 + lenN tb) (map entry_ser E_3) t3 ->
  let T := t0 ++ t1 ++ tb ++ t3 in
  let b := (lo - base) * FB in
  lenN (T ++ zerosN z) = (cur - base + 1) * FB ->
  (* D = T ++ zeros outside block blk *)
  lenN D = lenN (T ++ zerosN z) ->
  takeN (blk * B) D = takeN (blk * B) (T ++ zerosN z) ->
  dropN ((blk + 1) * B) D = dropN ((blk + 1) * B) (T ++ zerosN z) ->
  (blk + 1) * B <= lenN D ->
  (lo - base) * NB P <= blk ->
  St = dropN b D ->
  (* the split of the entries *)
  Forall (fun s => snd s < b) (starts P 0 (map entry_ser E_pre)) ->
  b <= ffp (lenN t0) ->
  (E_1 = [] \/ lenN t0 + lenN t1 <= blk * B) ->
  (E_3 = [] \/ (blk + 1) * B <= ffp (lenN t0 + lenN t1 + lenN tb)) ->
  NoEmbeddedPath P D blk T ->
  exists w0 tags E_mid E_tail,
    sublistD E_mid E_b /\
    ((E_tail = E_3 /\
      ((blk + 1) * B <= lenN T -> exists sts, dmg_spec P fs lo n base w0 tags sts (lenN T))) \/
     (E_tail = [] /\ stopped_in P D blk)) /\
    hd_spec w0 tags (length (E_1 ++ E_mid ++ E_tail)) /\
    match replay_entries [] (combine tags (E_1 ++ E_mid ++ E_tail)) with
    | Some qs => open P fs None pol hint = open_finish P w0 qs pol hint
    | None => exists c, open P fs None pol hint = OpenCorruption c
    end.
Proof.
  intros Hio Hbase Hlist Hwf R0 R1 Rb R3 T b HlenS HlenD Hlo Hhi Hblk Hkb HSt Hst0 Hst1 H1pos H3pos Hne.
  destruct (HeaderDamage.encs_rel_any P HBS_lo HBS_hi Hcrc _ _ _ R0) as (pxs0 & E0 & M0 & G0).
  destruct (HeaderDamage.encs_rel_any P HBS_lo HBS_hi Hcrc _ _ _ R1) as (pxs1 & E1 & M1 & G1).
  destruct (HeaderDamage.encs_rel_any P HBS_lo HBS_hi Hcrc _ _ _ Rb) as (pxsb & Eb & Mb & Gb).
  destruct (HeaderDamage.encs_rel_any P HBS_lo HBS_hi Hcrc _ _ _ R3) as (pxs3 & E3 & M3 & G3).
  assert (Hkbb : (lo - base) * NB P * B = b) by (unfold b; rewrite (HN FB_eq); lia).
  assert (HokS : stream_ok P (T ++ zerosN z)).
  { exists ((cur - base + 1) * NB P). rewrite HlenS, (HN FB_eq). lia. }
  assert (HneX : NoEmbeddedPathX P D blk (flat_map snd (pxs0 ++ pxs1 ++ pxsb ++ pxs3))).
  { apply Hne.
    - rewrite !flat_map_app. unfold T.
      apply (H3 layout_app _ _ _ (H3 encs_any_layout _ _ _ E0)). rewrite N.add_0_l.
      apply (H3 layout_app _ _ _ (H3 encs_any_layout _ _ _ E1)).
      apply (H3 layout_app _ _ _ (H3 encs_any_layout _ _ _ Eb)).
      exact (H3 encs_any_layout _ _ _ E3).
    - apply intact_flat. rewrite !forallb_app, G0, G1, Gb, G3. reflexivity. }
  assert (Hnil : forall (E : list entry) (pxs : list (bytes * list DamageProofs.fspec)), map fst pxs = map entry_ser E -> E = [] -> pxs = []).
  { intros E pxs HM ->. destruct pxs; [reflexivity|discriminate]. }
  destruct (header_damage_from_core P HBS_lo HBS_hi Hcrc pxs0 pxs1 pxsb pxs3 t0 t1 tb t3 z D blk
              ((lo - base) * NB P) E0 G0 E1 G1 Eb Gb E3 G3 HokS HlenD Hlo Hhi Hblk)
    as (evs & mid & tail & Hft & Hdel & Hsub & Htail).
  { rewrite M0, Hkbb. exact Hst0. }
  { rewrite Hkbb. exact Hst1. }
  { exact Hkb. }
  { destruct H1pos as [E|H]; [left; exact (Hnil _ _ M1 E)|right; exact H]. }
  { destruct H3pos as [E|H]; [left; exact (Hnil _ _ M3 E)|right; exact H]. }
  { exact HneX. }
  rewrite M1, Mb, M3 in *.
  destruct (sublist_map_inv entry_ser E_b mid Hsub) as (E_mid & -> & HsubE).
  assert (HlenD' : lenN D = (cur - base + 1) * FB) by (rewrite HlenD; exact HlenS).
  assert (Hwf1 : Forall wf_entry E_1 /\ Forall wf_entry E_mid /\ Forall wf_entry E_3).
  { apply Forall_app in Hwf as [W1 W2]. apply Forall_app in W2 as [Wb W3].
    split; [exact W1|]. split; [exact (sublistD_Forall _ _ _ HsubE Wb)|exact W3]. }
  destruct Hwf1 as (W1 & Wm & W3).
  set (F := (length evs + 2)%nat).
  destruct Htail as [[-> (e & (frE & HftF & Hend) & He)]|[-> Hstop]].
  - (* the reader got through block blk: the final reader is at the end of the log *)
    set (Ds := E_1 ++ E_mid ++ E_3).
    assert (Hds : delivered (asm evs [] false) = map entry_ser Ds)
      by (rewrite Hdel; unfold Ds; rewrite !map_app; reflexivity).
    destruct (reads_of_ftraceF P (length evs) evs (rd_at P D ((lo - base) * NB P) 0) [] false F frE
                (le_n _) HftF ltac:(unfold F; lia)) as (rrs & c & rrfV & Hl & Hrd & Hc & Hfin).
    assert (HwfD : Forall wf_entry Ds).
    { unfold Ds. apply Forall_app. split; [exact W1|]. apply Forall_app. split; assumption. }
    set (sts := map (fun rr : rreader vecr => (0, bpos P D (fr_rd (rr_fr rr)))) rrs).
    assert (Htr : tr_ok P D rrs sts).
    { unfold tr_ok, sts. clear. induction rrs as [|rr rrs IH]; cbn [map]; constructor; [cbn [snd]; lia|exact IH]. }
    rewrite <- Hfin in Hend.
    destruct (DamageFile.open_of_trace_end P HBS_lo HBS_hi HNB Hcrc fs lo n Hfull base D Hbase Hlist HSt
                HlenD' F rrs _ sts c rrfV e Ds pol hint Hio Hl Hrd Htr Hend Hds HwfD ltac:(unfold F; lia))
      as (w0 & tags & Hspec & Hres).
    exists w0, tags, E_mid, E_3.
    split; [exact HsubE|]. split.
    { left. split; [reflexivity|]. intros Hbig. exists sts. replace (lenN T) with e by exact (He Hbig). exact Hspec. }
    split; [|exact Hres].
    destruct Hspec as (Hlt & _ & Hsrt & Hrng & Hfl & Hlo' & Hcur & _ & Hpend & Hfs & Hplan).
    split; [|repeat split; assumption].
    rewrite Hlt. unfold sts. rewrite map_length, Hl, Hds, map_length. reflexivity.
  - (* the reader stopped inside block blk *)
    set (Ds := E_1 ++ E_mid ++ []).
    assert (Hds : delivered (asm evs [] false) = map entry_ser Ds)
      by (rewrite Hdel; unfold Ds; rewrite !map_app; reflexivity).
    destruct (ftrace_ftraceF P _ _ Hft) as (frE & HftF).
    destruct (reads_of_ftraceF P (length evs) evs (rd_at P D ((lo - base) * NB P) 0) [] false F frE
                (le_n _) HftF ltac:(unfold F; lia)) as (rrs & c & rrfV & Hl & Hrd & Hc & _).
    assert (HwfD : Forall wf_entry Ds).
    { unfold Ds. apply Forall_app. split; [exact W1|]. apply Forall_app. split; [exact Wm|constructor]. }
    destruct (open_of_trace_weak base D Hbase Hlist HSt HlenD' F rrs _ c rrfV Ds pol hint Hio Hl Hrd Hds HwfD
                ltac:(unfold F; lia)) as (w0 & tags & Hspec & Hres).
    exists w0, tags, E_mid, [].
    split; [exact HsubE|]. split; [right; split; [reflexivity|exact Hstop]|].
    split; [exact Hspec|exact Hres].
Qed.

(* ---------- the same with the canonical split of DamageFile.open_damaged ---------- *)
(* E_all: everything ever written; E_pre / E_suf: what a reader started at the first kept file
   skips / delivers when nothing is damaged.  With arbitrary bytes in one block of a kept file,
   open replays a sub-list of E_suf. *)
Theorem open_header_damaged_sub base E_all T z D blk pol hint :
  L_IO P = false ->
  base <= lo ->
  list_wal_numbers fs = files ->
  Forall wf_entry E_all ->
  encs_rel P 0 (map entry_ser E_all) T ->
  let b := (lo - base) * FB in
  lenN (T ++ zerosN z) = (cur - base + 1) * FB ->
  lenN D = lenN (T ++ zerosN z) ->
  takeN (blk * B) D = takeN (blk * B) (T ++ zerosN z) ->
  dropN ((blk + 1) * B) D = dropN ((blk + 1) * B) (T ++ zerosN z) ->
  (blk + 1) * B <= lenN D ->
  (lo - base) * NB P <= blk ->
  St = dropN b D ->
  b <= ffp (lenN T) ->
  NoEmbeddedPath P D blk T ->
  exists w0 tags E_pre E_suf Es',
    E_all = E_pre ++ E_suf /\
    map entry_ser E_pre = skipped_before P b 0 (map entry_ser E_all) /\
    map entry_ser E_suf = delivered_from P b 0 (map entry_ser E_all) /\
    sublistD Es' E_suf /\
    (((blk + 1) * B <= lenN T -> exists sts, dmg_spec P fs lo n base w0 tags sts (lenN T)) \/
     stopped_in P D blk) /\
    hd_spec w0 tags (length Es') /\
    match replay_entries [] (combine tags Es') with
    | Some qs => open P fs None pol hint = open_finish P w0 qs pol hint
    | None => exists c, open P fs None pol hint = OpenCorruption c
    end.
Proof.
  intros Hio Hbase Hlist Hwf Henc b HlenS HlenD Hlo Hhi Hblk Hkb HSt Hreach Hne.
  pose proof (skipped_delivered P b (map entry_ser E_all) 0) as Hsplit.
  destruct (map_app_inv entry_ser E_all _ _ Hsplit) as (E_pre & E_suf & HE & Hpre & Hsuf).
  pose proof Henc as Henc'. rewrite HE, map_app in Henc'.
  destruct (H3 encs_rel_app_inv _ _ _ _ Henc') as (t0 & ts & ET & R0 & Rs).
  rewrite N.add_0_l in Rs.
  assert (ET' : T = t0 ++ [] ++ ts ++ []) by (rewrite ET; cbn [app]; now rewrite app_nil_r).
  assert (Hst1 : b <= ffp (lenN t0)).
  { destruct E_suf as [|e E_suf'].
    - inversion Rs; subst ts. rewrite app_nil_r in ET. rewrite <- ET. exact Hreach.
    - pose proof (H3 delivered_head b (map entry_ser E_all) 0) as Hh.
      rewrite <- Hsuf, <- Hpre, (H3 cursor_after_rel _ _ _ R0), N.add_0_l in Hh.
      apply Hh. discriminate. }
  assert (Hwf' : Forall wf_entry ([] ++ E_suf ++ [])).
  { cbn [app]. rewrite app_nil_r. rewrite HE in Hwf. apply Forall_app in Hwf. apply Hwf. }
  rewrite ET' in HlenS, HlenD, Hlo, Hhi, Hne.
  destruct (open_header_damaged base E_pre [] E_suf [] t0 [] ts [] z D blk pol hint Hio Hbase Hlist Hwf'
              R0 (ES_nil P _))
    as (w0 & tags & E_mid & E_tail & Hsub & Htail & Hspec & Hres);
    rewrite ?(@lenN_nil byte), ?N.add_0_r; try assumption.
  { constructor. }
  { rewrite Hpre. apply skipped_starts. }
  { left; reflexivity. }
  { left; reflexivity. }
  assert (Etl : E_tail = []) by (destruct Htail as [[E _]|[E _]]; exact E).
  subst E_tail. cbn [app] in Hspec, Hres. rewrite app_nil_r in Hspec, Hres.
  exists w0, tags, E_pre, E_suf, E_mid.
  split; [exact HE|]. split; [exact Hpre|]. split; [exact Hsuf|].
  split; [exact Hsub|]. split; [|split; [exact Hspec|exact Hres]].
  rewrite ET'. destruct Htail as [[_ H]|[_ H]]; [left; exact H|right; exact H].
Qed.

End Dir.
End FilesD.

Print Assumptions open_header_damaged.
Print Assumptions open_header_damaged_sub.

(* ====================================================================== *)
(* Part E. from the global invariant: C08 for header damage                *)
(* ====================================================================== *)
From MRL Require Import Spec SpecRefine ReplaySpec HandleProofs RestartInv RestartFinal DamageAtomic.

(* where the records of a replay come from, for ANY list of tagged entries (legal or not):
   every record of every queue of the result is a record of an AppendRecords entry of the
   list, for that queue *)
Lemma replay_origin_any (fes : glog) qD :
  replay_entries [] fes = Some qD ->
  forall q m rec, qs_get qD q = Some m -> In rec (records_of (q_buf m) (q_metas m)) ->
    exists j pos recs, nth_error (map snd fes) j = Some (EAppend q pos recs) /\ In rec recs.
Proof.
  intros Hrep q m rec Eq Hin.
  destruct (replay_views_from [] fes qD Hrep) as (cm & S & _ & ES & _ & _ & _ & Hu & _).
  cbn [length] in ES.
  pose proof (untag_abs_get S qD q Hu) as Hq. rewrite Eq in Hq.
  destruct (t_get S q) as [[rf nf]|] eqn:Et; [|contradiction].
  unfold untag_q, abs_q in Hq. cbn [fst snd] in Hq. injection Hq as Hr _.
  rewrite <- Hr in Hin. apply in_map_iff in Hin. destruct Hin as (r & <- & Hin).
  destruct (t_replay_origin q r _ _ _ _ _ _ ES Et Hin)
    as [(rf0 & n0 & E0 & _)|(j & pos & recs & _ & En & Hr')]; [discriminate|].
  exists j, pos, recs. split; [exact En|exact Hr'].
Qed.

(* the queues of a replay are named by its entries (any list) *)
Lemma replay_names_any (fes : glog) qD :
  replay_entries [] fes = Some qD ->
  forall q m, qs_get qD q = Some m -> In q (map entry_queue (map snd fes)).
Proof.
  intros Hrep q m Eq.
  destruct (replay_views_from [] fes qD Hrep) as (cm & S & _ & ES & _ & _ & _ & Hu & _).
  cbn [length] in ES.
  pose proof (untag_abs_get S qD q Hu) as Hq. rewrite Eq in Hq.
  destruct (t_get S q) as [v|] eqn:Et; [|contradiction].
  destruct (t_replay_named q _ _ _ _ ES ltac:(rewrite Et; discriminate)) as [H|H]; [|exact H].
  exfalso. apply H. reflexivity.
Qed.

Lemma sublistD_In {A} (l1 l2 : list A) x : sublistD l1 l2 -> In x l1 -> In x l2.
Proof.
  induction 1 as [|y l1 l2 Hs IH|y l1 l2 Hs IH]; intros Hx; [exact Hx|right; auto|].
  destruct Hx as [->|Hx]; [left; reflexivity|right; auto].
Qed.

Section InvE.
Variable P : params.
Hypothesis HBS_lo : 7 < BS P.
Hypothesis HBS_hi : BS P <= 65542.
Hypothesis HNB : 1 <= NB P.
Hypothesis Hcrc : forall t p, crcf P t p < 2 ^ 32.
Hypothesis HIO : L_IO P = false.

Local Notation B := (BS P).
Local Notation FB := (FILE_BYTES P).
Local Notation ffp := (first_frame_pos P).
Local Notation H3 f := (f P HBS_lo HBS_hi Hcrc) (only parsing).
Local Notation H2 f := (f P HBS_lo HBS_hi) (only parsing).
Local Notation HW f := (f P HBS_lo HBS_hi HNB Hcrc) (only parsing).
Local Notation HN f := (f P HBS_lo HBS_hi HNB) (only parsing).

(* fs_d is the directory left by drop_log st (= vfs (s_wr st)) with ARBITRARY bytes in block
   blk of the ghost stream, a block of a kept file: same names, kinds and lengths; the kept
   files hold D from the first kept file on, D = the ghost stream (zero-padded to the end of
   the current file) outside block blk; and only genuine frames verify on the reader's path
   through that block. *)
Definition header_damaged_dir (st : state) (G : ghost) (blk : N) (D : bytes) (fs_d : fsT) : Prop :=
  let w := s_wr st in
  let dl := wlo w - gh_base G in
  let S := gh_T P G ++ zerosN ((dl + lenN (w_files w)) * FB - lenN (gh_T P G)) in
  same_shape (vfs w) fs_d /\
  lenN D = lenN S /\
  takeN (blk * B) D = takeN (blk * B) S /\
  dropN ((blk + 1) * B) D = dropN ((blk + 1) * B) S /\
  (blk + 1) * B <= lenN D /\
  dl * NB P <= blk /\
  stream_of fs_d (w_files w) = dropN (dl * FB) D /\
  NoEmbeddedPath P D blk (gh_T P G).

(* open on such a directory: it replays a sub-list Es' of the kept log (tags: the files the
   entries are attributed to); it fails with Corruption exactly when the replay of that sub-list
   does (several entries of one block may be lost, e.g. a delete and the following re-creation
   of a queue: see Example below); otherwise it is the recovery-time GC run on the replayed
   queues qD, which does not change them, and every record of qD is a record of an
   AppendRecords entry of Es' for the same queue. *)
Theorem C08_header_damage st G blk D fs_d :
  Inv P st G -> header_damaged_dir st G blk D fs_d ->
  forall pol hint, exists w0 tags Es',
    sublistD Es' (map snd (gh_E G)) /\ length tags = length Es' /\
    match replay_entries [] (combine tags Es') with
    | Some qD =>
        open P fs_d None pol hint = open_finish P w0 qD pol hint /\
        (forall st_r, open P fs_d None pol hint = OpenOk st_r -> s_qs st_r = qD) /\
        (forall q m rec, qs_get qD q = Some m -> In rec (records_of (q_buf m) (q_metas m)) ->
           exists pos recs, In (EAppend q pos recs) Es' /\ In rec recs)
    | None => exists c, open P fs_d None pol hint = OpenCorruption c
    end.
Proof.
  intros HI (Hsh & HlenD & Hlo & Hhi & Hblk & Hkb & HSt & Hne) pol hint. cbn zeta in *.
  pose proof HI as (HP & HL).
  set (w := s_wr st) in *.
  pose proof HP as (Hw & Hwd & Hnd & Hbase & Hc1 & Hc2 & Hs & HWf & _). cbn zeta in *.
  destruct (HN winv_files w Hw) as (n & Hfiles & Hfile).
  pose proof Hw as (Hok & _ & Hoff & _ & _ & Hfull & _).
  assert (Hnf : lenN (w_files w) = N.of_nat n + 1) by (rewrite Hfiles, lenN_iota; lia).
  assert (Hwpos : wpos P w = N.of_nat n * FB + w_off w).
  { unfold FileStream.wpos. rewrite Hnf. f_equal. f_equal. lia. }
  set (lo := wlo w) in *. set (base := gh_base G) in *. set (dl := lo - base) in *.
  set (T := gh_T P G) in *.
  set (z := (dl + lenN (w_files w)) * FB - lenN T) in *.
  assert (Hfull' : forall f, In f (iota lo (S n)) ->
            exists b, fs_get fs_d (filename f) = Some (FFile b) /\ lenN b = FB).
  { rewrite <- Hfiles. intros f Hf. destruct (Hfull f Hf) as (b & Hg & Hlb).
    destruct (same_shape_file _ _ _ _ Hsh Hg) as (b' & Hg' & Hlb'). exists b'. split; [exact Hg'|lia]. }
  assert (Hlist : list_wal_numbers fs_d = iota lo (S n)).
  { rewrite (same_shape_listing _ _ Hsh), <- Hfiles. exact (listing_after P w Hw Hwd Hnd). }
  assert (Henc : encs_rel P 0 (map entry_ser (gh_ALL G)) T) by apply (H3 encs_of_rel).
  assert (HSt' : stream_of fs_d (iota lo (S n)) = dropN (dl * FB) D) by (rewrite <- Hfiles; exact HSt).
  assert (HlenS : lenN (T ++ zerosN z) = (lo + N.of_nat n - base + 1) * FB).
  { rewrite lenN_app, lenN_zerosN. unfold z. rewrite Hnf.
    replace (lo + N.of_nat n - base + 1) with (dl + (N.of_nat n + 1)) by lia.
    rewrite Hwpos in Hc1. assert (lenN T <= (dl + (N.of_nat n + 1)) * FB) by lia. lia. }
  assert (Hreach : dl * FB <= ffp (lenN T)) by lia.
  destruct (open_header_damaged_sub P HBS_lo HBS_hi HNB Hcrc fs_d lo n Hfull' base (gh_ALL G) T z D blk
              pol hint HIO Hbase Hlist HWf Henc HlenS HlenD Hlo Hhi Hblk Hkb HSt' Hreach Hne)
    as (w0 & tags & E_pre & E_suf & Es' & HE & Hskip & _ & Hsub & _ & Hspec & Hres).
  fold dl in Hskip.
  (* the entries skipped are those before E *)
  destruct (HW PInv_delivered w G HP) as (_ & Eskip). fold lo base dl in Eskip.
  change (map entry_ser (gh_ALL G)) with (gh_ser G) in Hskip.
  rewrite Eskip in Hskip. unfold gh_ser_before in Hskip.
  assert (Hlp : length (gh_before G) = length E_pre).
  { apply (f_equal (@length bytes)) in Hskip. rewrite !map_length in Hskip. lia. }
  rewrite gh_ALL_split in HE.
  destruct (app_inv_len _ _ _ _ HE Hlp) as [_ <-].
  destruct Hspec as (Hlt & _).
  exists w0, tags, Es'. split; [exact Hsub|]. split; [exact Hlt|].
  destruct (replay_entries [] (combine tags Es')) as [qD|] eqn:Erep; [|exact Hres].
  split; [exact Hres|]. split.
  - intros st_r Ho. rewrite Hres in Ho. unfold open_finish in Ho.
    pose proof (SpecRefine.run_gc_qs P (mkSt w0 qD pol) hint) as Hqs.
    destruct (run_gc_if_necessary P (mkSt w0 qD pol) hint) as [st1 [k|e]]; [|discriminate].
    injection Ho as <-. exact Hqs.
  - intros q m rec Eq Hin.
    destruct (replay_origin_any _ _ Erep q m rec Eq Hin) as (j & pos & recs & Hn & Hr).
    rewrite map_snd_combine' in Hn by exact Hlt.
    exists pos, recs. split; [exact (nth_error_In _ _ Hn)|exact Hr].
Qed.

(* ---------- the setting is inhabited ---------- *)
(* a header whose type byte is not a frame type (cf. TornProofs.read_frame_badtype) *)
Lemma read_frame_badtype' (S : bytes) k c pre H post :
  S = pre ++ H ++ post -> lenN pre = k * B + c -> lenN H = 7 -> c + 7 <= B ->
  all_zero H = false -> ft_of_code (le_dec (dropN 6 H)) = None ->
  read_frame P vecr (vr_next P) vr_block (rd_at P S k c) = (mkFR (rd_of P S k) c true, FCorrupt).
Proof.
  intros HS Hpre HH Hc Hnz Hty.
  assert (Hhdr : sliceN c (c + 7) (sliceN (k * B) ((k + 1) * B) S) = H).
  { apply (H3 blk_slice S k c (c + 7) pre H post); try assumption; lia. }
  unfold read_frame, StreamProofs.rd_at, HEADER_LEN. cbn [fr_corrupt fr_cursor fr_rd orb vr_block].
  destruct (N.ltb_spec (B - c) 7) as [Hlt|_]; [lia|].
  cbn [fr_corrupt fr_cursor fr_rd orb vr_block].
  rewrite Hhdr, Hnz, Hty. reflexivity.
Qed.

(* For every state under the invariant and every block blk of a kept file there is such a
   directory: ONE byte changed, the type byte of the header at the start of the block, set to
   0xFF.  The reader drops the whole block (no frame verifies on its path, so NoEmbeddedPath
   holds whatever the CRC function is). *)
Theorem header_damaged_dir_exists st G blk :
  Inv P st G ->
  (wlo (s_wr st) - gh_base G) * NB P <= blk ->
  blk < (wlo (s_wr st) - gh_base G + lenN (w_files (s_wr st))) * NB P ->
  exists D fs_d, header_damaged_dir st G blk D fs_d /\
                 ((blk + 2) * B <= lenN D -> ~ stopped_in P D blk).
Proof.
  intros HI Hlo Hhi.
  set (w := s_wr st) in *. set (dl := wlo w - gh_base G) in *.
  set (T := gh_T P G). set (z := (dl + lenN (w_files w)) * FB - lenN T).
  set (S := T ++ zerosN z).
  pose proof HI as ((Hw & _ & _ & Hbase & Hc1 & _) & _). cbn zeta in Hc1. fold w dl T in Hc1.
  pose proof Hw as (Hok & _ & _ & _ & Hu & Hfull & _).
  pose proof (winv_wpos_le P HBS_lo HBS_hi HNB w Hw) as Hpos.
  assert (HlenS : lenN S = (dl + lenN (w_files w)) * FB).
  { unfold S. rewrite lenN_app, lenN_zerosN. unfold z. rewrite N.mul_add_distr_r. lia. }
  assert (HFB : FB = NB P * B) by apply (HN FB_eq).
  set (q0 := blk * B).
  assert (Hq : q0 + B <= lenN S).
  { rewrite HlenS, HFB. unfold q0.
    assert ((blk + 1) * B <= (dl + lenN (w_files w)) * NB P * B) by (apply N.mul_le_mono_r; lia). lia. }
  set (pre := takeN q0 S). set (Hd := sliceN q0 (q0 + 6) S ++ ["255"%byte]).
  set (post := dropN (q0 + 7) S).
  set (D := pre ++ Hd ++ post).
  assert (Lpre : lenN pre = q0) by (unfold pre; rewrite lenN_takeN; lia).
  assert (LHd : lenN Hd = 7).
  { unfold Hd. rewrite lenN_app, (HeaderDamage.lenN_sliceN q0 (q0 + 6) S) by lia.
    rewrite lenN_cons, (@lenN_nil byte). lia. }
  assert (Lpost : lenN post = lenN S - (q0 + 7)) by (unfold post; apply lenN_dropN).
  assert (LD : lenN D = lenN S) by (unfold D; rewrite !lenN_app, Lpre, LHd, Lpost; lia).
  assert (Hbad : read_frame P vecr (vr_next P) vr_block (rd_at P D blk 0) =
                 (mkFR (rd_of P D blk) 0 true, FCorrupt)).
  { apply (read_frame_badtype' D blk 0 pre Hd post eq_refl); [fold q0; lia|exact LHd|lia| |].
    - unfold Hd. rewrite all_zero_app. cbn [all_zero Byte.eqb]. apply andb_false_r.
    - unfold Hd. rewrite dropN_app_ge by (rewrite (HeaderDamage.lenN_sliceN q0 (q0 + 6) S) by lia; lia).
      rewrite (HeaderDamage.lenN_sliceN q0 (q0 + 6) S) by lia.
      replace (6 - (q0 + 6 - q0)) with 0 by lia. reflexivity. }
  assert (Hreach : forall o, reach P D blk o -> o = 0).
  { induction 1 as [|c c' res Hr IH Hc E]; [reflexivity|]. subst c.
    rewrite Hbad in E. apply (f_equal fst) in E. apply (f_equal fr_corrupt) in E.
    cbn [fst fr_corrupt StreamProofs.rd_at] in E. discriminate E. }
  exists D, (put_stream FB (vfs w) (w_files w) (dropN (dl * FB) D)).
  assert (HlenSd : lenN (dropN (dl * FB) D) = lenN (w_files w) * FB).
  { rewrite lenN_dropN, LD, HlenS, N.mul_add_distr_r. lia. }
  split.
  2:{ intros Hlen2 [Hlt|(o & Hr & Ho & Hz)]; [lia|].
      rewrite (Hreach o Hr), N.add_0_r in Hz. fold q0 in Hz.
      assert (Hsl : sliceN q0 (q0 + 7) D = Hd)
        by (unfold D; apply StreamProofs.sliceN_app_mid'; [exact Lpre|rewrite LHd; reflexivity]).
      rewrite Hsl in Hz. unfold Hd in Hz. rewrite all_zero_app in Hz. cbn [all_zero Byte.eqb] in Hz.
      rewrite andb_false_r in Hz. discriminate Hz. }
  unfold header_damaged_dir. cbn zeta. fold w dl T z S.
  split; [apply put_stream_shape; [exact Hfull|exact HlenSd]|].
  split; [exact LD|].
  split.
  { fold q0. unfold D. rewrite takeN_app_le by lia. unfold pre. rewrite takeN_takeN. f_equal. lia. }
  split.
  { replace ((blk + 1) * B) with (q0 + B) by (unfold q0; lia).
    unfold D. rewrite dropN_app_ge by lia. rewrite Lpre.
    rewrite dropN_app_ge by lia. rewrite LHd. unfold post. rewrite dropN_dropN. f_equal. lia. }
  split; [rewrite LD; unfold q0 in Hq; lia|].
  split; [exact Hlo|].
  split.
  { apply put_stream_stream; [|intros f Hf; exact (N.le_trans _ _ _ (wr_ok_le w f Hok Hf) Hu)|exact HlenSd].
    destruct (wr_ok_files w Hok) as (_ & _ & _ & Hs). exact Hs. }
  intros xs _ _. apply (H3 accepted_genuine_path); [rewrite LD; unfold q0 in Hq; lia|].
  intros o Hr Ho fr' t p E. rewrite (Hreach o Hr), Hbad in E. discriminate E.
Qed.

(* ---------- open SUCCEEDS when the reader got through the damaged block ---------- *)
(* If moreover the damaged block lies inside the written log ((blk + 1) * B <= |T|: what follows
   the log is still zero) and the reader did not stop inside it, the writer open builds stands
   where the clean writer would (DamageFile.dmg_spec), so the recovery-time GC cannot fail
   (DamageAtomic.pz_gc_no_err, under the 2^64-files bound dmg_bound): open returns OpenOk with
   exactly the queues of the replay of the sub-list Es' — or Corruption if that replay fails. *)
Hypothesis HGC : L_GC P = false.

Theorem C08_header_damage_ok st G blk D fs_d :
  Inv P st G -> header_damaged_dir st G blk D fs_d -> dmg_bound P st G ->
  (blk + 1) * B <= lenN (gh_T P G) -> ~ stopped_in P D blk ->
  forall pol hint, exists tags Es',
    sublistD Es' (map snd (gh_E G)) /\ length tags = length Es' /\
    match replay_entries [] (combine tags Es') with
    | Some qD => exists st_r, open P fs_d None pol hint = OpenOk st_r /\ s_qs st_r = qD
    | None => exists c, open P fs_d None pol hint = OpenCorruption c
    end.
Proof.
  intros HI (Hsh & HlenD & Hlo & Hhi & Hblk & Hkb & HSt & Hne) Hbound Hbig Hns pol hint. cbn zeta in *.
  pose proof HI as (HP & HL).
  set (w := s_wr st) in *.
  pose proof HP as (Hw & Hwd & Hnd & Hbase & Hc1 & Hc2 & Hs & HWf & _). cbn zeta in *.
  destruct (HN winv_files w Hw) as (n & Hfiles & Hfile).
  pose proof Hw as (Hok & _ & Hoff & _ & _ & Hfull & _).
  assert (Hnf : lenN (w_files w) = N.of_nat n + 1) by (rewrite Hfiles, lenN_iota; lia).
  assert (Hwpos : wpos P w = N.of_nat n * FB + w_off w).
  { unfold FileStream.wpos. rewrite Hnf. f_equal. f_equal. lia. }
  set (lo := wlo w) in *. set (base := gh_base G) in *. set (dl := lo - base) in *.
  set (T := gh_T P G) in *.
  set (z := (dl + lenN (w_files w)) * FB - lenN T) in *.
  assert (Hfull' : forall f, In f (iota lo (S n)) ->
            exists b, fs_get fs_d (filename f) = Some (FFile b) /\ lenN b = FB).
  { rewrite <- Hfiles. intros f Hf. destruct (Hfull f Hf) as (b & Hg & Hlb).
    destruct (same_shape_file _ _ _ _ Hsh Hg) as (b' & Hg' & Hlb'). exists b'. split; [exact Hg'|lia]. }
  assert (Hlist : list_wal_numbers fs_d = iota lo (S n)).
  { rewrite (same_shape_listing _ _ Hsh), <- Hfiles. exact (listing_after P w Hw Hwd Hnd). }
  assert (Henc : encs_rel P 0 (map entry_ser (gh_ALL G)) T) by apply (H3 encs_of_rel).
  assert (HSt' : stream_of fs_d (iota lo (S n)) = dropN (dl * FB) D) by (rewrite <- Hfiles; exact HSt).
  assert (HlenS : lenN (T ++ zerosN z) = (lo + N.of_nat n - base + 1) * FB).
  { rewrite lenN_app, lenN_zerosN. unfold z. rewrite Hnf.
    replace (lo + N.of_nat n - base + 1) with (dl + (N.of_nat n + 1)) by lia.
    rewrite Hwpos in Hc1. assert (lenN T <= (dl + (N.of_nat n + 1)) * FB) by lia. lia. }
  assert (Hreach : dl * FB <= ffp (lenN T)) by lia.
  destruct (open_header_damaged_sub P HBS_lo HBS_hi HNB Hcrc fs_d lo n Hfull' base (gh_ALL G) T z D blk
              pol hint HIO Hbase Hlist HWf Henc HlenS HlenD Hlo Hhi Hblk Hkb HSt' Hreach Hne)
    as (w0 & tags & E_pre & E_suf & Es' & HE & Hskip & _ & Hsub & Hpos & Hspec & Hres).
  fold dl in Hskip.
  destruct (HW PInv_delivered w G HP) as (_ & Eskip). fold lo base dl in Eskip.
  change (map entry_ser (gh_ALL G)) with (gh_ser G) in Hskip.
  rewrite Eskip in Hskip. unfold gh_ser_before in Hskip.
  assert (Hlp : length (gh_before G) = length E_pre).
  { apply (f_equal (@length bytes)) in Hskip. rewrite !map_length in Hskip. lia. }
  rewrite gh_ALL_split in HE.
  destruct (app_inv_len _ _ _ _ HE Hlp) as [_ <-].
  destruct Hspec as (Hlt & _).
  exists tags, Es'. split; [exact Hsub|]. split; [exact Hlt|].
  destruct (replay_entries [] (combine tags Es')) as [qD|] eqn:Erep; [|exact Hres].
  destruct Hpos as [Hpos|Hst]; [|contradiction].
  destruct (Hpos Hbig) as (sts & Hdspec).
  (* the directory holds T' ++ zeros with |T'| = |T| *)
  set (T' := takeN (lenN T) D).
  assert (HlenSz : lenN T + z = lenN D) by (rewrite HlenD, lenN_app, lenN_zerosN; reflexivity).
  assert (HlenT' : lenN T' = lenN T) by (unfold T'; rewrite lenN_takeN; lia).
  assert (HDz : D = T' ++ zerosN z).
  { unfold T'. rewrite <- (takeN_dropN (lenN T) D) at 1. f_equal.
    replace (lenN T) with ((blk + 1) * B + (lenN T - (blk + 1) * B)) at 1 by lia.
    rewrite <- dropN_dropN, Hhi, dropN_dropN.
    replace ((blk + 1) * B + (lenN T - (blk + 1) * B)) with (lenN T) by lia.
    apply dropN_app_exact. }
  assert (Hkbb : dl * FB <= lenN T).
  { rewrite (HN FB_eq). assert (dl * NB P * B <= blk * B) by (apply N.mul_le_mono_r; exact Hkb). lia. }
  assert (Hdspec' : dmg_spec P fs_d lo n base w0 tags sts (N.max (dl * FB) (lenN T)))
    by (rewrite N.max_r by exact Hkbb; exact Hdspec).
  assert (HSt'' : stream_of fs_d (w_files w) =
                  dropN (dl * FB) (T' ++ zerosN ((dl + lenN (w_files w)) * FB - lenN T)))
    by (fold z; rewrite <- HDz; exact HSt).
  destruct (dmg_writer P HBS_lo HBS_hi HNB Hcrc w G fs_d w0 tags sts n T' HP Hfiles Hsh HlenT' HSt'' Hdspec')
    as (HPZ & Elo & Hk1 & Hk2).
  fold lo base dl T in Hk1, Hk2.
  (* the recovery-time GC *)
  set (st0 := mkSt w0 qD pol).
  set (names := pick_order hint (empty_names qD)).
  assert (Hb0 : FB * wlo (s_wr st0) +
                cursor_after P (wpos P (s_wr st0)) (map entry_ser (pos_entries (s_qs st0) names)) <=
                FB * (U64_MAX + 1)).
  { cbn [st0 s_wr s_qs]. destruct HPZ as (Hw0 & _).
    apply (bound_transfer P HBS_lo HBS_hi HNB Hcrc w w0 (lenN T) dl _ Hw Hw0 Elo Hc1 Hc2 Hk1 Hk2).
    apply Hbound.
    - apply pos_entries_nodup. apply NoDup_pick_order. apply NoDup_empty_names.
      exact (replay_from_nil_nodup _ _ Erep).
    - apply Forall_forall. intros e He.
      destruct (pos_entries_in _ _ _ He) as (q & m & _ & Eq & ->). exists q, (next_position m).
      split; [reflexivity|].
      pose proof (replay_names_any _ _ Erep q m Eq) as Hin.
      rewrite map_snd_combine' in Hin by exact Hlt.
      apply in_map_iff in Hin. destruct Hin as (x & Ex & Hx).
      apply in_map_iff. exists x. split; [exact Ex|exact (sublistD_In _ _ _ Hsub Hx)]. }
  rewrite Hres. unfold open_finish. fold st0.
  pose proof (SpecRefine.run_gc_qs P st0 hint) as Hqs.
  destruct (run_gc_if_necessary P st0 hint) as [st1 r] eqn:Egc. cbn [fst] in Hqs.
  destruct (pz_gc_no_err P HBS_lo HBS_hi HNB Hcrc HGC st0 hint st1 r HPZ Hb0 Egc) as (kk & ->).
  exists st1. split; [reflexivity|exact Hqs].
Qed.

End InvE.

Print Assumptions replay_origin_any.
Print Assumptions C08_header_damage.
Print Assumptions header_damaged_dir_exists.
Print Assumptions C08_header_damage_ok.
