(* JRecoverL.v — TASK T14, stage 2: the logical half of the invariant for the state recovered
   from a crash image.
   1. linv_reopen_suffix: the ghost re-chosen at a (crash) restart when MORE than E is delivered.
   2. call_prefix_linv: the logical invariant after any prefix of the entries of one call. *)
From Coq Require Import Lia ZArith ZifyN ZifyNat ZifyBool List Sorted.
From MRL Require Import Bytes BytesProofs Params Names NamesProofs Frame Record Mem Spec Rolling Log
  Driver Hist NoopProofs SpecRefine RecordProofs StreamProofs PolicyProofs GcProofs GhostLog ReplaySpec
  HandleProofs FileStream ResyncProofs QueueIso RestartInv RestartWrite RestartGc RestartStep
  OpenReplay RestartFinal CrashAtomic.

Arguments N.add : simpl never.
Arguments N.sub : simpl never.
Arguments N.mul : simpl never.
Arguments N.eqb : simpl never.
Arguments N.ltb : simpl never.
Arguments N.leb : simpl never.
Arguments N.div : simpl never.
Arguments N.modulo : simpl never.
Arguments N.min : simpl never.
Arguments N.max : simpl never.
Arguments N.pow : simpl never.

(* ====================================================================== *)
(* 1. a restart that delivers a suffix of ALL containing E                 *)
(* ====================================================================== *)
Definition gh_resplit (G : ghost) (E_pre E_suf : list entry) (tags : list N) : ghost :=
  mkGhost (gh_base G) E_pre [] (combine tags E_suf).

Lemma gh_resplit_ALL G E_pre E_suf tags :
  length tags = length E_suf -> gh_ALL (gh_resplit G E_pre E_suf tags) = E_pre ++ E_suf.
Proof.
  intros H. unfold gh_ALL, gh_log, gh_resplit. cbn [gh_dropped gh_pre gh_E app].
  now rewrite map_snd_combine'.
Qed.

Lemma linv_reopen_suffix qs lo G E_pre E_suf tags lo' qs' :
  LInv qs lo G -> gh_ALL G = E_pre ++ E_suf -> (length E_pre <= gh_k G)%nat ->
  length tags = length E_suf -> Forall (fun f => lo' <= f) tags ->
  replay_entries [] (combine tags E_suf) = Some qs' -> qs_wf qs' ->
  LInv qs' lo' (gh_resplit G E_pre E_suf tags).
Proof.
  intros (_ & Hleg & _ & F & EF & Hcov) Hsplit Hk Hlen Htags Hrep Hwf.
  pose proof (gh_ALL_split G) as Hs2. rewrite Hsplit in Hs2.
  destruct (app_split_len E_pre E_suf (gh_before G) (map snd (gh_E G)) Hs2) as (mid & Hb & Hsuf).
  { now rewrite gh_before_length. }
  assert (Hkm : gh_k G = (length E_pre + length mid)%nat).
  { rewrite <- gh_before_length, Hb, app_length. reflexivity. }
  unfold LInv. rewrite (gh_resplit_ALL G E_pre E_suf tags Hlen), <- Hsplit.
  split; [exact Hwf|]. split; [exact Hleg|].
  split; [exact Hrep|].
  exists F. split; [exact EF|].
  intros q rf n Eq. destruct (Hcov q rf n Eq) as (Hc & Hr).
  assert (EkG : gh_k (gh_resplit G E_pre E_suf tags) = length E_pre).
  { unfold gh_k, gh_resplit. cbn [gh_dropped gh_pre length]. lia. }
  assert (EE : map snd (gh_E (gh_resplit G E_pre E_suf tags)) = E_suf).
  { cbn [gh_resplit gh_E]. now apply map_snd_combine'. }
  split.
  - rewrite EE, Hsuf, existsb_app, Hc. apply orb_true_r.
  - eapply Forall_impl; [|exact Hr].
    intros r (j & f & e & Ej & En & _ & Hcr).
    assert (Hj' : (length mid + j < length tags)%nat).
    { assert (Hjl : (j < length (gh_E G))%nat) by (apply nth_error_Some; congruence).
      rewrite Hlen, Hsuf, app_length, map_length. lia. }
    destruct (nth_error_Some_ex tags (length mid + j) Hj') as (f' & Ef').
    exists (length mid + j)%nat, f', e. split; [rewrite EkG; lia|]. split.
    + cbn [gh_resplit gh_E]. apply nth_error_combine; [exact Ef'|].
      rewrite Hsuf, nth_error_app2 by lia. replace (length mid + j - length mid)%nat with j by lia.
      now rewrite nth_error_map, En.
    + split; [|exact Hcr]. rewrite Forall_forall in Htags. apply Htags.
      eapply nth_error_In; exact Ef'.
Qed.

(* ====================================================================== *)
(* 2. the logical invariant after a prefix of the entries of one call      *)
(* ====================================================================== *)
Section CallPrefix.
Variable P : params.
Hypothesis HBS_lo : 7 < BS P.
Hypothesis HBS_hi : BS P <= 65542.
Hypothesis HNB : 1 <= NB P.
Hypothesis Hcrc : forall t p, crcf P t p < 2 ^ 32.
Hypothesis HGC : L_GC P = false.

Local Notation HN f := (f P HBS_lo HBS_hi HNB) (only parsing).
Local Notation HG f := (f P HBS_lo HBS_hi HNB Hcrc HGC) (only parsing).

(* (as in CrashAtomic.call_entries_atomic, exporting the ghost) *)
Theorem call_prefix_linv st G o tick st' out :
  Inv P st G -> op_wf_strict (s_qs st) o ->
  stream_bound P G (map snd (step_log P st o)) ->
  step P st o tick = (st', out) -> (forall e, out <> OutIo e) ->
  forall Xd Xr, map snd (step_log P st o) = Xd ++ Xr ->
  exists Gd qsd,
    LInv qsd (wlo (s_wr st)) Gd /\ gh_base Gd = gh_base G /\ gh_before Gd = gh_before G /\
    map snd (gh_E Gd) = map snd (gh_E G) ++ Xd /\
    (Xd = [] -> forall q, s_get (abs_qs qsd) q = s_get (abs_qs (s_qs st)) q) /\
    (Xd <> [] -> forall q, s_get (abs_qs qsd) q = s_get (abs_qs (s_qs st')) q).
Proof.
  intros HI Hop Hb Hstep Hno Xd Xr HX.
  pose proof HI as (HP & HL).
  destruct Xd as [|x Xd'].
  { exists G, (s_qs st). split; [exact HL|]. split; [reflexivity|]. split; [reflexivity|].
    split; [now rewrite app_nil_r|]. split; [intros _ q; reflexivity|]. intros H; now destruct H. }
  destruct (HG inv_step st G o tick st' out HI Hop Hb Hstep Hno)
    as (G' & (HP' & HL') & Eb & Ed & Elog).
  pose proof (LInv_nodup _ _ _ HL) as Hnd.
  pose proof (step_replay P st o tick Hnd) as Hrep. rewrite Hstep in Hrep. cbn [fst snd] in Hrep.
  specialize (Hrep Hno).
  destruct (step_log_shape P st o) as [E0|(e & rest & Elg & Hshape)].
  { rewrite E0 in HX. discriminate. }
  rewrite Elg in *. cbn [map snd app] in HX. injection HX as <- HX.
  set (f := w_file (s_wr st)) in *.
  cbn [replay_entries] in Hrep.
  destruct (apply_entry (s_qs st) f e) as [qs_m|] eqn:Hap; [|discriminate].
  pose proof (apply_entry_nodup _ _ _ _ Hnd Hap) as Hndm.
  specialize (Hshape qs_m eq_refl Hndm).
  set (lo := wlo (s_wr st)) in *.
  assert (Hlof : lo <= f).
  { destruct HP as (Hw & _). exact (HN winv_wlo_le _ Hw). }
  assert (Hleg : forall F, t_replay [] 0 (gh_ALL G) = Some F -> legal F e).
  { intros F EF. destruct HL' as (_ & Hleg' & _).
    assert (EA : gh_ALL G' = gh_ALL G ++ e :: map snd rest).
    { unfold gh_ALL. rewrite Ed, Elog, map_app, app_assoc. reflexivity. }
    rewrite EA in Hleg'. destruct (legal_log_app _ _ _ _ Hleg') as (F0 & EF0 & Hl0).
    rewrite EF in EF0. inversion EF0; subst F0.
    now destruct (legal_log_cons_inv _ _ _ _ Hl0). }
  assert (Hwfm : qs_wf qs_m /\ s_qs st' = qs_m).
  { assert (Hfin : forall qsx, replay_entries qs_m rest = Some qsx -> qsx = s_qs st')
      by (intros qsx E; rewrite E in Hrep; now injection Hrep).
    assert (Hid' : forall fx, pos_extra (abs_qs qs_m) (map snd fx) ->
              replay_entries qs_m fx = Some qs_m).
    { induction fx as [|[f1 e1] fx IH]; intros Hx; [reflexivity|].
      cbn [map snd] in Hx. destruct (pos_extra_cons _ _ _ Hx) as ((q & p & -> & Hg) & Hx').
      destruct (abs_empty_queue qs_m q p Hg) as (m & Em & Hem & <-).
      cbn [replay_entries apply_entry]. rewrite (ack_position_empty_id qs_m q m Em Hem).
      now apply IH. }
    pose proof (Hfin _ (Hid' rest Hshape)) as E. split; [|now symmetry].
    rewrite E. exact (proj1 HL'). }
  destruct Hwfm as (Hwfm & Eqm).
  pose proof (linv_apply _ _ _ f e qs_m HL Hwfm Hleg Hap Hlof) as HL1.
  assert (Hxp : pos_extra (abs_qs qs_m) Xd').
  { rewrite HX in Hshape. exact (pos_extra_prefix _ _ _ Hshape). }
  set (fx := map (pair lo) Xd').
  assert (Efx : map snd fx = Xd').
  { unfold fx. rewrite map_map. cbn [snd]. apply map_id. }
  destruct (linv_pos_extra qs_m lo (gh_snoc G f e) fx HL1) as (HL2 & _).
  { now rewrite Efx. }
  { unfold fx. apply Forall_forall. intros fe Hin. apply in_map_iff in Hin.
    destruct Hin as (y & <- & _). cbn [fst]. lia. }
  exists (gh_app (gh_snoc G f e) fx), qs_m.
  split; [exact HL2|]. split; [reflexivity|]. split; [reflexivity|].
  split.
  { cbn [gh_app gh_snoc gh_E]. rewrite !map_app, Efx. cbn [map snd]. now rewrite <- app_assoc. }
  split; [discriminate|]. intros _ q. now rewrite Eqm.
Qed.

End CallPrefix.

Print Assumptions linv_reopen_suffix.
Print Assumptions call_prefix_linv.
