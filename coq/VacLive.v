(* VacLive.v — vacuity audit, part 6: the theorems about live calls whose premises are local
   invariants (others_synced, unlink_guarded, seqw, qs_inv, wr_ok, dir_ok, nodup_keys, attr_inv,
   noop_call, drained, fired ...): PropC03, PropC04 (live half), PropC05, PropC06, PropC08,
   PropC09 (entry level), PropC10, PropC11, PropC12, PropC13, PropC14, PropC15, PropC16, PropC17,
   PropC18 (live half).
   The states are those of RestartFinal.Example (BS = 32, NB = 2): st_ex after the 12-step
   history; stR = st_ex restarted under PAlways true (a state returned by `open` on a directory
   of three files, two queues); st6 / st7 = before / after the truncate whose GC unlinks files
   0 and 1. *)
From Coq Require Import Lia ZArith ZifyN ZifyNat ZifyBool List.
From MRL Require Import Bytes BytesProofs Params Names NamesProofs Frame Record Mem Spec Rolling Log
  Driver Hist WriterProofs NoopProofs SpecRefine MemAcctProofs RecordProofs EffectsProofs
  PolicyProofs QueueIso GcProofs OpenTerm OpenIo GhostLog ReplaySpec DeletionSim PersistProofs
  HandleProofs RestartInv RestartFinal RestartCorollaries VacBase VacRestart.
From MRL Require PropC03 PropC04 PropC05 PropC06 PropC08 PropC09 PropC10 PropC11 PropC12 PropC13
  PropC14 PropC15 PropC16 PropC17 PropC18.
Import ListNotations.
Import RestartFinal.Example.

Arguments N.add : simpl never.
Arguments N.sub : simpl never.
Arguments N.mul : simpl never.
Arguments N.eqb : simpl never.
Arguments N.ltb : simpl never.
Arguments N.leb : simpl never.
Arguments N.div : simpl never.
Arguments N.modulo : simpl never.

Local Notation qA := RestartFinal.Example.qa.
Local Notation qB := RestartFinal.Example.qb.

Ltac le_tac := vm_compute; let H := fresh in intro H; discriminate H.

(* stR is a state returned by open *)
Lemma open_stR : open Px (c_fs (drop_log st_ex)) None (PAlways true) [qB] = OpenOk stR.
Proof. vm_compute. reflexivity. Qed.

Example stR_shape :
  w_files (s_wr stR) = [4; 5; 6] /\ w_off (s_wr stR) = 32 /\ w_pending (s_wr stR) = [] /\
  s_pol stR = PAlways true /\
  abs_qs (s_qs stR) = [(qA, ([(6, pay "v"%byte)], 7)); (qB, ([(0, pay "w"%byte)], 1))].
Proof. vm_compute. repeat split; reflexivity. Qed.

(* st6 = after the first restart of h_ex (returned by open), st7 = after the truncate that follows *)
Definition st5 : state :=
  Eval vm_compute in match hrun Px st0 (firstn 5 h_ex) with Some (s, _) => s | None => st_dummy end.
Definition st6 : state :=
  Eval vm_compute in match hrun Px st0 (firstn 6 h_ex) with Some (s, _) => s | None => st_dummy end.
Definition o7 : op := OTruncate qA 2 [qB].
Definition st7 : state := Eval vm_compute in fst (step Px st6 o7 false).
Lemma open_st6 : open Px (c_fs (drop_log st5)) None (PDelay true) [] = OpenOk st6.
Proof. vm_compute. reflexivity. Qed.
Lemma step_st7 : step Px st6 o7 false = (st7, OutTruncate 3 45).
Proof. vm_compute. reflexivity. Qed.

(* ====================================================================== *)
(* PropC03                                                                *)
(* ====================================================================== *)
Lemma others_stR : others_synced (s_wr stR).
Proof. exact (proj1 (PropC03.C03_open_establishes Px _ _ _ _ _ open_stR)). Qed.
Lemma guarded_st6 : unlink_guarded (chrono (w_ctx (s_wr st6))).
Proof. exact (proj2 (PropC03.C03_open_establishes Px _ _ _ _ _ open_st6) eq_refl). Qed.

Definition qC : bytes := ["c"%byte].
Definition stC : state := Eval vm_compute in fst (step Px stR (OCreate qC) false).
Lemma step_stC : step Px stR (OCreate qC) false = (stC, OutCreate 19).
Proof. vm_compute. reflexivity. Qed.

Example C03_fsync_durable_inst :
  (forall name, file_synced name (chrono (w_ctx (s_wr stC)))) /\ w_pending (s_wr stC) = [].
Proof.
  exact (PropC03.C03_fsync_durable Px stR (OCreate qC) false stC (OutCreate 19) step_stC eq_refl
           eq_refl others_stR).
Qed.

Example C03_power_loss_keeps_synced_prefix_inst : forall later,
  power_filter (chrono (w_ctx (s_wr stC)) ++ later) =
  chrono (w_ctx (s_wr stC)) ++ power_filter later.
Proof.
  intros later. apply PropC03.C03_power_loss_keeps_synced_prefix.
  exact (proj1 C03_fsync_durable_inst).
Qed.

Example stC_trace_has_writes :
  existsb (fun e => match e with EvWrite _ _ _ => true | _ => false end) (c_ev (w_ctx (s_wr stC))) = true.
Proof. vm_compute. reflexivity. Qed.

Example C03_flush_in_os_inst : w_pending (s_wr (fst (step Px stR (OPersist false) true))) = [].
Proof.
  destruct (step Px stR (OPersist false) true) as [st' out] eqn:Es. cbn [fst].
  apply (PropC03.C03_flush_in_os Px stR (OPersist false) true st' out Es).
  - right. reflexivity.
  - replace out with (snd (step Px stR (OPersist false) true)) by (rewrite Es; reflexivity).
    vm_compute. reflexivity.
  - reflexivity.
Qed.

Definition oA : op := OAppend qA None [pay "n"%byte; pay "m"%byte].
Definition stA : state := Eval vm_compute in fst (step Px stR oA false).
Lemma step_stA : step Px stR oA false = (stA, OutAppend (Some 8) 77).
Proof. vm_compute. reflexivity. Qed.

Example C03_flush_bytes_inst :
  w_pending (s_wr stA) = [] /\
  ev_bytes (c_ev (w_ctx (s_wr stA))) = ev_bytes (c_ev (w_ctx (s_wr stR))) + 77.
Proof.
  apply (PropC03.C03_flush_bytes Px stR oA false stA (OutAppend (Some 8) 77) 77 true step_stA eq_refl
           eq_refl).
  left. reflexivity.
Qed.

Example C03_other_files_synced_inst : others_synced (s_wr stA).
Proof.
  pose proof (PropC03.C03_other_files_synced Px stR oA false others_stR) as H.
  rewrite step_stA in H. exact H.
Qed.

(* C03_unlinks_after_sync: a GC pass that unlinks: the state st6 with its queues forgotten (nothing
   references files 0..2) *)
Definition st_g : state := set_qs st6 [].
Definition st_g' : state := Eval vm_compute in fst (run_gc_if_necessary Px st_g []).
Definition new_g : list event :=
  Eval vm_compute in firstn (length (c_ev (w_ctx (s_wr st_g'))) - length (c_ev (w_ctx (s_wr st_g))))
                            (c_ev (w_ctx (s_wr st_g'))).
Lemma run_gc_g : run_gc_if_necessary Px st_g [] = (st_g', Ok 0).
Proof. vm_compute. reflexivity. Qed.

Example C03_unlinks_after_sync_inst :
  exists unlinks older,
    new_g = unlinks ++ [EvSyncDir; EvSyncData (filename 3); EvFlush (filename 3)] ++ older /\
    Forall is_unlink unlinks.
Proof.
  destruct (PropC03.C03_unlinks_after_sync Px eq_refl st_g [] st_g' (Ok 0) new_g run_gc_g)
    as (unlinks & older & stm & H1 & H2 & _).
  - vm_compute. reflexivity.
  - exists (filename 2). unfold new_g. left. reflexivity.
  - exists unlinks, older. cbv zeta in H1. split; [exact H1|exact H2].
Qed.

Example new_g_shape :
  map (fun e => match e with EvUnlink n => filename_to_position n | _ => None end) (firstn 4 new_g) =
  [Some 2; Some 1; Some 0; None].
Proof. vm_compute. reflexivity. Qed.

Example C03_unlink_guarded_inst : unlink_guarded (chrono (w_ctx (s_wr st7))).
Proof.
  pose proof (PropC03.C03_unlink_guarded Px eq_refl [(o7, false)] st6 guarded_st6) as H.
  replace (run Px st6 [(o7, false)]) with (st7, [OutTruncate 3 45]) in H by (vm_compute; reflexivity).
  exact H.
Qed.

(* the trace of st7 contains two unlinks; the first one: *)
Definition evs7 : list event := Eval vm_compute in chrono (w_ctx (s_wr st7)).
Fixpoint split_unlink (l : list event) : list event * list event :=
  match l with
  | [] => ([], [])
  | EvUnlink n :: r => ([], r)
  | e :: r => let '(a, b) := split_unlink r in (e :: a, b)
  end.
Definition pre7 : list event := Eval vm_compute in fst (split_unlink evs7).
Definition post7 : list event := Eval vm_compute in snd (split_unlink evs7).

Example C03_no_write_between_inst :
  exists pre1 f pre2, pre7 = pre1 ++ [EvFlush f; EvSyncData f; EvSyncDir] ++ pre2 /\
                      forall n off d, ~ In (EvWrite n off d) pre2.
Proof.
  apply (PropC03.C03_no_write_between evs7 pre7 (filename 0) post7).
  - exact C03_unlink_guarded_inst.
  - vm_compute. reflexivity.
Qed.

Example C03_open_establishes_inst :
  others_synced (s_wr stR) /\ (L_GC Px = false -> unlink_guarded (chrono (w_ctx (s_wr stR)))).
Proof. exact (PropC03.C03_open_establishes Px _ _ _ _ _ open_stR). Qed.

(* seqw: the same directory opened under two policies *)
Definition stR2 : state :=
  Eval vm_compute in match restart Px st_ex PNothing [qB] with OpenOk s => s | _ => st_dummy end.
Lemma open_stR2 : open Px (c_fs (drop_log st_ex)) None PNothing [qB] = OpenOk stR2.
Proof. vm_compute. reflexivity. Qed.
Lemma seqw_R : seqw stR stR2.
Proof. exact (PropC14.C14_open_ok_seqw Px _ None _ _ _ stR stR2 eq_refl open_stR open_stR2). Qed.

Definition hP : list (op * bool) :=
  [(oA, false); (OTruncate qA 7 [qB], false); (OCreate qC, false); (OAppend qB None [pay "s"%byte], true)].

Example C03_policy_independent_content_inst :
  snd (run Px stR hP) = snd (run Px stR2 (map (fun ot => (fst ot, negb (snd ot))) hP)) /\
  seqw (fst (run Px stR hP)) (fst (run Px stR2 (map (fun ot => (fst ot, negb (snd ot))) hP))).
Proof.
  pose proof (PropC03.C03_policy_independent_content Px hP
                (map (fun ot => (fst ot, negb (snd ot))) hP) stR stR2 eq_refl eq_refl seqw_R) as H.
  destruct (run Px stR hP) as [s1 o1]. destruct (run Px stR2 _) as [s2 o2]. exact H.
Qed.

(* ====================================================================== *)
(* PropC04 (live half)                                                     *)
(* ====================================================================== *)
Lemma qs_inv_stR : qs_inv (s_qs stR).
Proof. exact (PropC05.C05_open_establishes_inv Px _ _ _ _ _ open_stR). Qed.

Definition m_s : smap := [(qA, ([], 0))].
Definition h_s : list sop :=
  [SAppend qA None [pay "x"%byte; pay "y"%byte]; STruncate qA 0; SAppend qA (Some 5) [pay "z"%byte];
   SCreate qB; SDelete qB; SAppend qA None [pay "u"%byte]].

Example C04_spec_next_monotone_inst :
  exists recs' next',
    s_get (fst (s_run m_s h_s)) qA = Some (recs', next') /\ 0 <= next' /\
    Sorted.StronglySorted N.lt (lasts qA h_s (snd (s_run m_s h_s))) /\
    lasts qA h_s (snd (s_run m_s h_s)) = [1; 5; 6].
Proof.
  destruct (PropC04.C04_spec_next_monotone h_s m_s qA [] 0 eq_refl ltac:(vm_compute; reflexivity))
    as (recs' & next' & H1 & H2 & H3 & _).
  exists recs', next'. split; [exact H1|]. split; [exact H2|]. split; [exact H3|]. vm_compute. reflexivity.
Qed.

Definition stP : state := Eval vm_compute in fst (run Px stR hP).
Definition outsP : list outcome := Eval vm_compute in snd (run Px stR hP).
Lemma run_P : run Px stR hP = (stP, outsP).
Proof. vm_compute. reflexivity. Qed.
Lemma no_io_P : forallb (fun o => negb (is_io o)) outsP = true.
Proof. vm_compute. reflexivity. Qed.
Lemma never_del_P : log_never_deleted qA hP outsP.
Proof. vm_compute. reflexivity. Qed.

Example C04_log_positions_fresh_inst :
  (qs_get (s_qs stR) qA <> None -> qs_get (s_qs stP) qA <> None) /\
  incr_between (log_next stR qA) (log_next stP qA) (log_lasts qA hP outsP).
Proof.
  exact (PropC04.C04_log_positions_fresh Px hP stR stP outsP qA qs_inv_stR run_P no_io_P never_del_P).
Qed.

Example C04_log_lasts_increasing_inst :
  log_next stR qA <= log_next stP qA /\
  Sorted.StronglySorted N.lt (log_lasts qA hP outsP) /\
  (forall l, In l (log_lasts qA hP outsP) -> log_next stR qA <= l < log_next stP qA).
Proof.
  exact (PropC04.C04_log_lasts_increasing Px hP stR stP outsP qA qs_inv_stR run_P no_io_P never_del_P).
Qed.

Example positions_P : log_next stR qA = 7 /\ log_next stP qA = 9 /\ log_lasts qA hP outsP = [8].
Proof. vm_compute. repeat split; reflexivity. Qed.

Example C04_append_fresh_inst :
  qs_get (s_qs stR) qA <> None /\ log_next stR qA <= 8 /\ log_next stA qA = 8 + 1 /\
  log_last_position stA qA = Some (Some 8).
Proof.
  exact (PropC04.C04_append_fresh Px stR qA None _ false stA 8 77 qs_inv_stR step_stA).
Qed.

Lemma qs_inv_stA : qs_inv (s_qs stA).
Proof.
  pose proof (PropC05.C05_refines Px stR oA false qs_inv_stR) as H. rewrite step_stA in H. exact (proj1 H).
Qed.

Definition oT : op := OTruncate qA 7 [qB].
Definition stT : state := Eval vm_compute in fst (step Px stA oT false).
Lemma step_stT : step Px stA oT false = (stT, OutTruncate 2 19).
Proof. vm_compute. reflexivity. Qed.

Example C04_truncate_next_inst :
  qs_get (s_qs stT) qA <> None /\ 7 + 1 <= log_next stT qA /\
  (forall recs, log_range stT qA Unb Unb = Some recs -> forall x, In x recs -> 7 < fst x).
Proof.
  exact (PropC04.C04_truncate_next Px stA qA 7 [qB] false stT 2 19 qs_inv_stA step_stT).
Qed.

Definition hT : list (op * bool) :=
  [(OCreate qC, false); (OAppend qA None [pay "s"%byte], true); (OAppend qA (Some 20) [pay "t"%byte], false)].
Definition stT' : state := Eval vm_compute in fst (run Px stT hT).
Definition outsT : list outcome := Eval vm_compute in snd (run Px stT hT).

Example C04_after_truncate_inst :
  (forall l, In l (log_lasts qA hT outsT) -> 7 < l) /\ log_lasts qA hT outsT = [9; 20].
Proof.
  split; [|vm_compute; reflexivity].
  apply (PropC04.C04_after_truncate Px stA qA 7 [qB] false stT 2 19 hT stT' outsT qs_inv_stA step_stT).
  - vm_compute. reflexivity.
  - vm_compute. reflexivity.
  - vm_compute. reflexivity.
Qed.

Example C04_step_positions_inst :
  7 <= 9 /\
  (forall x, In x [(6, pay "v"%byte); (7, pay "n"%byte); (8, pay "m"%byte)] ->
             In x [(6, pay "v"%byte)] \/ 7 <= fst x) /\
  (forall x, In x [(6, pay "v"%byte); (7, pay "n"%byte); (8, pay "m"%byte)] -> fst x < 9).
Proof.
  apply (PropC04.C04_step_positions Px stR oA false stA (OutAppend (Some 8) 77) qA
           [(6, pay "v"%byte)] 7 [(6, pay "v"%byte); (7, pay "n"%byte); (8, pay "m"%byte)] 9
           qs_inv_stR step_stA eq_refl).
  - vm_compute. reflexivity.
  - vm_compute. reflexivity.
Qed.

(* ====================================================================== *)
(* PropC05                                                                *)
(* ====================================================================== *)
Example C05_refines_inst :
  qs_inv (s_qs stT) /\
  s_step (abs_qs (s_qs stA)) (sop_of oT) = (abs_qs (s_qs stT), STruncated 2).
Proof.
  pose proof (PropC05.C05_refines Px stA oT false qs_inv_stA) as H. rewrite step_stT in H.
  destruct H as [H1 H2]. split; [exact H1|]. apply H2. reflexivity.
Qed.

Example C05_run_refines_inst :
  qs_inv (s_qs stP) /\
  s_run (abs_qs (s_qs stR)) (map (fun ot => sop_of (fst ot)) hP) =
    (abs_qs (s_qs stP), [SAppended (Some 8); STruncated 2; SOk; SAppended (Some 1)]).
Proof.
  pose proof (PropC05.C05_run_refines Px hP stR qs_inv_stR) as H. rewrite run_P in H.
  destruct H as [H1 H2]. split; [exact H1|]. apply H2. vm_compute. reflexivity.
Qed.

Example C05_open_establishes_inv_inst : qs_inv (s_qs stR).
Proof. exact qs_inv_stR. Qed.

Example C05_range_all_bounds_inst :
  log_range stA qA (Excl 6) (Incl 8) = s_range (abs_qs (s_qs stA)) qA (Excl 6) (Incl 8) /\
  log_range stA qA (Excl 6) (Incl 8) = Some [(7, pay "n"%byte); (8, pay "m"%byte)].
Proof.
  split; [exact (PropC05.C05_range_all_bounds Px stA qA (Excl 6) (Incl 8) qs_inv_stA)|].
  vm_compute. reflexivity.
Qed.

Example C05_last_record_inst : log_last_record stA qA = s_last_record (abs_qs (s_qs stA)) qA.
Proof. exact (PropC05.C05_last_record stA qA qs_inv_stA). Qed.

Example C05_ring_inst :
  ring_get_range (pay "l"%byte) (pay "r"%byte) 7 13 = sliceN 7 13 (pay "l"%byte ++ pay "r"%byte).
Proof. apply PropC05.C05_ring; le_tac. Qed.

Example C05_past_only_guard_inst :
  exists m p, qs_get (s_qs stA) qA = Some m /\ Some 3 = Some p /\ p + 1 < next_position m.
Proof.
  apply (PropC05.C05_past_only_guard Px stA qA (Some 3) [pay "z"%byte] false).
  vm_compute. reflexivity.
Qed.

(* ====================================================================== *)
(* PropC06                                                                *)
(* ====================================================================== *)
Lemma wr_inv_ex :
  wr_ok (s_wr st_ex) /\ dir_ok (s_wr st_ex) /\ nodup_keys (c_fs (w_ctx (s_wr st_ex))).
Proof.
  destruct inv_ex as (G & HI & _).
  destruct (Inv_winv Px st_ex G HI) as (_ & (Hok & Hdir) & Hnd).
  split; [exact Hok|]. split; [apply Hdir; le_tac|exact Hnd].
Qed.

Definition gc6 := Eval vm_compute in gc_loop (w_ctx (s_wr st6)) (w_files (s_wr st6)) (fun f => f =? 2).
Example C06_gc_loop_inst :
  exists dropped,
    [0; 1; 2; 3] = dropped ++ [2; 3] /\ Forall (fun f => (f =? 2) = false) dropped /\
    gc_tight (fun f => f =? 2) [0; 1; 2; 3] [2; 3].
Proof.
  destruct (PropC06.C06_gc_loop (w_files (s_wr st6)) (w_ctx (s_wr st6)) (fun f => f =? 2)
              (fst (fst gc6)) [2; 3] ltac:(vm_compute; reflexivity))
    as (dropped & H1 & H2 & H3 & _).
  exists dropped. split; [exact H1|]. split; [exact H2|exact H3].
Qed.

Definition o_gc : op := OTruncate qA 6 [qB].
Definition st_gc : state := Eval vm_compute in fst (step Px st_ex o_gc false).
Lemma step_gc : step Px st_ex o_gc false = (st_gc, OutTruncate 1 48).
Proof. vm_compute. reflexivity. Qed.

Example C06_contiguous_preserved_inst : wr_ok (s_wr st_gc).
Proof.
  pose proof (PropC06.C06_contiguous_preserved Px st_ex o_gc false (proj1 wr_inv_ex)) as H.
  rewrite step_gc in H. exact H.
Qed.

Example C06_tight_inst :
  exists lo, hd_error (w_files (s_wr st_gc)) = Some lo /\
    (lo = w_file (s_wr st_gc) \/ qs_ref lo (s_qs st_gc) = true \/ w_file (s_wr st_ex) <= lo).
Proof.
  apply (PropC06.C06_tight Px st_ex o_gc false st_gc (OutTruncate 1 48) (proj1 wr_inv_ex) step_gc).
  left. exists qA, 6, [qB], 1, 48. split; reflexivity.
Qed.

Example C06_disk_used_inst :
  exists lo, hd_error (w_files (s_wr st_gc)) = Some lo /\ lo <= w_file (s_wr st_gc) /\
    log_disk_used Px st_gc = (w_file (s_wr st_gc) - lo + 1) * FILE_BYTES Px.
Proof.
  destruct (PropC06.C06_disk_used Px st_ex o_gc false st_gc (OutTruncate 1 48) (proj1 wr_inv_ex) step_gc)
    as (lo & H1 & H2 & H3 & _).
  - left. exists qA, 6, [qB], 1, 48. split; reflexivity.
  - exists lo. auto.
Qed.

Example gc_shape : w_files (s_wr st_ex) = [4; 5; 6] /\ w_files (s_wr st_gc) = [5; 6; 7].
Proof. vm_compute. split; reflexivity. Qed.

Example C06_directory_is_tracker_inst :
  list_wal_numbers (c_fs (w_ctx (s_wr st_gc))) = w_files (s_wr st_gc).
Proof.
  destruct wr_inv_ex as (H1 & H2 & H3).
  pose proof (PropC06.C06_directory_is_tracker Px st_ex o_gc false H3 H1 H2) as H.
  rewrite step_gc in H. apply H. le_tac.
Qed.

Example C06_gc_no_err_inst :
  snd (gc_loop (w_ctx (s_wr st_ex)) (w_files (s_wr st_ex)) (fun _ => false)) = Ok tt.
Proof.
  destruct wr_inv_ex as (H1 & H2 & H3).
  destruct (gc_loop (w_ctx (s_wr st_ex)) (w_files (s_wr st_ex)) (fun _ => false)) as [[c files] r] eqn:E.
  cbn [snd]. apply (PropC06.C06_gc_no_err (s_wr st_ex) (fun _ => false) c files r E H1 H2). le_tac.
Qed.

(* handles: HandleProofs.ex_fes (two batches in file 3, one in file 4, then a truncation) *)
Definition qs_h : queues :=
  Eval vm_compute in match replay_entries [] ex_fes with Some q => q | None => [] end.
Definition F_h : tmap :=
  Eval vm_compute in match t_replay [] 0 (map snd ex_fes) with Some F => F | None => [] end.
Lemma replay_h : replay_entries [] ex_fes = Some qs_h. Proof. vm_compute. reflexivity. Qed.
Lemma t_replay_h : t_replay [] 0 (map snd ex_fes) = Some F_h. Proof. vm_compute. reflexivity. Qed.
Definition rf_h : list trec :=
  Eval vm_compute in match t_get F_h ReplaySpec.qa with Some (rf, _) => rf | None => [] end.
Lemma t_get_h : t_get F_h ReplaySpec.qa = Some (rf_h, 5). Proof. vm_compute. reflexivity. Qed.

Example C06_handles_cover_records_inst :
  rf_h = [(1%nat, (1, [x02])); (2%nat, (2, [x03])); (2%nat, (3, [x04])); (3%nat, (4, [x05]))] /\
  forall r, In r rf_h -> qs_ref (file_of ex_fes (fst r)) qs_h = true.
Proof.
  split; [vm_compute; reflexivity|]. intros r Hr.
  exact (PropC06.C06_handles_cover_records ex_fes qs_h F_h ReplaySpec.qa rf_h 5 r replay_h t_replay_h
           t_get_h Hr).
Qed.

Example C06_unreferenced_file_is_empty_inst :
  forall r, In r rf_h -> file_of ex_fes (fst r) <> 7.
Proof.
  intros r Hr.
  exact (PropC06.C06_unreferenced_file_is_empty ex_fes qs_h F_h 7 replay_h t_replay_h
           ltac:(vm_compute; reflexivity) ReplaySpec.qa rf_h 5 r t_get_h Hr).
Qed.

(* C06_live_handles: attr_inv for a NON-EMPTY state, obtained from the theorem applied to the
   fresh state (attr_inv [] [] holds trivially), then the theorem again *)
Lemma attr_inv_nil : attr_inv [] [].
Proof. intros q. exact I. Qed.

Definition g1 := Eval vm_compute in gstep Px (@pair state glog st0 []) (OCreate qA) false.
Definition st1c : state := Eval vm_compute in fst (fst g1).
Definition L1c : glog := Eval vm_compute in snd (fst g1).
Definition oXY : op := OAppend qA None [pay "x"%byte; pay "y"%byte].
Definition g2 := Eval vm_compute in gstep Px (st1c, L1c) oXY false.
Definition st2c : state := Eval vm_compute in fst (fst g2).
Definition L2c : glog := Eval vm_compute in snd (fst g2).
Lemma gstep1 : gstep Px (@pair state glog st0 []) (OCreate qA) false = (st1c, L1c, OutCreate 19).
Proof. vm_compute. reflexivity. Qed.
Lemma gstep2 : gstep Px (st1c, L1c) oXY false = (st2c, L2c, OutAppend (Some 1) 77).
Proof. vm_compute. reflexivity. Qed.

Example C06_live_handles_inst :
  exists am1 am2,
    s_qs st1c <> [] /\ attr_inv am1 (s_qs st1c) /\
    a_replay am1 (s_qs st1c) (skipn 1 L2c) = Some (am2, s_qs st2c) /\ attr_inv am2 (s_qs st2c).
Proof.
  destruct (PropC06.C06_live_handles Px st0 [] (OCreate qA) false st1c L1c (OutCreate 19) [])
    as (es1 & am1 & _ & _ & Ha1).
  { constructor. } { exact attr_inv_nil. } { exact gstep1. } { intros e H; discriminate H. }
  destruct (PropC06.C06_live_handles Px st1c L1c oXY false st2c L2c (OutAppend (Some 1) 77) am1)
    as (es2 & am2 & HL & Hr & Ha2).
  { vm_compute. repeat constructor. intros []. }
  { exact Ha1. } { exact gstep2. } { intros e H; discriminate H. }
  exists am1, am2. split; [vm_compute; discriminate|]. split; [exact Ha1|]. split; [|exact Ha2].
  assert (es2 = skipn 1 L2c) as <-; [|exact Hr].
  unfold L2c, L1c in HL. cbn [app] in HL. injection HL as HL. cbn [skipn]. symmetry. exact HL.
Qed.

(* C06_attrs_ge_first_kept: the premise on files below lo is NOT vacuous here (file 1 is a tag) *)
Definition fes_k : glog :=
  [(1, EPosition qA 0); (1, EAppend qA 0 (number_from 0 [[x01]])); (2, ETruncate qA 0);
   (2, EAppend qA 1 (number_from 1 [[x02]; [x03]]))].
Definition amqs_k := Eval vm_compute in a_replay [] [] fes_k.

Example C06_attrs_ge_first_kept_inst :
  exists am qs, amqs_k = Some (am, qs) /\ g_get am qA = Some [2; 2] /\
    forall q attrs, g_get am q = Some attrs -> Forall (fun a => 2 <= a) attrs.
Proof.
  unfold amqs_k. eexists. eexists. split; [reflexivity|]. split; [reflexivity|].
  apply (PropC06.C06_attrs_ge_first_kept fes_k _ _ 2 ltac:(vm_compute; reflexivity)).
  intros f Hin Hlt. cbn in Hin. destruct Hin as [<-|[<-|[<-|[<-|[]]]]]; try (vm_compute; reflexivity); lia.
Qed.

(* ====================================================================== *)
(* PropC08 / PropC10 / PropC12 / PropC09 (entry level)                     *)
(* ====================================================================== *)
Example C08_positions_increasing_any_directory_inst : qs_inv (s_qs stR).
Proof. exact (PropC08.C08_positions_increasing_any_directory Px _ _ _ _ _ open_stR). Qed.

Example C10_result_wellformed_inst : qs_inv (s_qs stR).
Proof. exact (PropC10.C10_result_wellformed Px _ _ _ _ _ open_stR). Qed.

(* replaying an append on the (non-empty) queues of stA *)
Definition e_app : entry := EAppend qA 12 [(12, pay "g"%byte); (15, pay "h"%byte)].
Definition qs_app : queues :=
  Eval vm_compute in match apply_entry (s_qs stA) 9 e_app with Some q => q | None => [] end.
Lemma apply_app : apply_entry (s_qs stA) 9 e_app = Some qs_app.
Proof. vm_compute. reflexivity. Qed.

Example C08_replay_inserts_only_entry_records_inst :
  exists m', qs_get qs_app qA = Some m' /\
    records_of (q_buf m') (q_metas m') =
    [(6, pay "v"%byte); (7, pay "n"%byte); (8, pay "m"%byte)] ++ [(12, pay "g"%byte); (15, pay "h"%byte)].
Proof.
  destruct (PropC08.C08_replay_inserts_only_entry_records (s_qs stA) 9 qA 12 _ qs_app qs_inv_stA apply_app)
    as (m' & H1 & H2).
  exists m'. split; [exact H1|]. rewrite H2. vm_compute. reflexivity.
Qed.

Example C12_apply_all_or_nothing_inst :
  exists m', qs_get qs_app qA = Some m'.
Proof.
  destruct (PropC12.C12_apply_all_or_nothing (s_qs stA) 9 qA 12 _ qs_app qs_inv_stA apply_app)
    as (m' & H1 & _). exists m'. exact H1.
Qed.

Example C09_deletion_replay_some_inst : exists D, t_replay_skip dx_A dx_B = Some D.
Proof. exact (PropC09.C09_deletion_replay_some dx_A dx_B dx_x dx_legal). Qed.

Example C09_replay_tolerates_lost_entry_inst :
  exists qF qD,
    replay_entries [] (map (pair 1) dx_A ++ (2, dx_x) :: map (pair 2) dx_B) = Some qF /\
    replay_entries [] (map (pair 1) dx_A ++ map (pair 3) dx_B) = Some qD /\
    qs_inv qF /\ qs_inv qD.
Proof.
  assert (Hsnd : forall (f : N) (l : list entry), map snd (map (pair f) l) = l).
  { intros f l. rewrite map_map. cbn [snd]. apply map_id. }
  pose proof (PropC09.C09_replay_tolerates_lost_entry (map (pair 1) dx_A) (map (pair 2) dx_B)
                (map (pair 1) dx_A) (map (pair 3) dx_B) (2, dx_x) dx_F) as H.
  cbn zeta in H. cbn [snd] in H. rewrite !Hsnd in H.
  destruct (H eq_refl eq_refl dx_legal dx_full) as (qF & qD & H1 & H2 & H3 & H4 & _).
  exists qF, qD. split; [exact H1|]. split; [exact H2|]. split; [exact H3|exact H4].
Qed.

(* C10: L_IO = false and 7 < BS; on a directory with foreign entries, a directory named like a WAL
   file, a short file and garbage *)
Definition fs_junk : fsT :=
  [(filename 3, FFile (pay "g"%byte ++ zerosN 50)); (["x"%byte], FOther); (filename 4, FDir);
   (filename 5, FFile [x01; x02]); (filename 9, FFile (zerosN 64))].

Example C10_open_terminates_inst : forall c, open Px fs_junk None PNothing [] <> OpenFuel c.
Proof. intros c. exact (PropC10.C10_open_terminates Px Px_BS_lo fs_junk None PNothing [] c eq_refl). Qed.

Example C10_fuel_bound_inst : forall c, open_with Px 40 fs_junk None PNothing [] <> OpenFuel c.
Proof.
  intros c. apply (PropC10.C10_fuel_bound Px Px_BS_lo 40 fs_junk None PNothing [] c eq_refl).
  vm_compute. reflexivity.
Qed.

Example C10_fuel_irrelevant_inst :
  open_with Px 1000 fs_junk None PNothing [] = open_with Px 40 fs_junk None PNothing [].
Proof.
  apply (PropC10.C10_fuel_irrelevant Px 40 1000 fs_junk None PNothing [] _ eq_refl).
  - exact C10_fuel_bound_inst.
  - lia.
Qed.

(* ====================================================================== *)
(* PropC11: a fault plan that is never reached (the 50th read), one that is *)
(* ====================================================================== *)
Definition plan_far : fplan := mkPlan SRead 50 false IoOther.
Definition plan_hit : fplan := mkPlan SOpen 1 true IoPermissionDenied.
Definition stF : state :=
  Eval vm_compute in match open Px (c_fs (drop_log st_ex)) (Some plan_far) PNothing [] with
                     | OpenOk s => s | _ => st_dummy end.
Lemma open_far : open Px (c_fs (drop_log st_ex)) (Some plan_far) PNothing [] = OpenOk stF.
Proof. vm_compute. reflexivity. Qed.

(* R2: both plans are reportable (not site Read with kind UnexpectedEof) *)
Lemma plan_far_reportable : reportable plan_far.
Proof. intros [_ H]. discriminate H. Qed.
Lemma plan_hit_reportable : reportable plan_hit.
Proof. intros [H _]. discriminate H. Qed.

Example C11_ok_means_not_fired_inst : ~ fired plan_far (w_ctx (s_wr stF)).
Proof. exact (PropC11.C11_ok_means_not_fired Px plan_far plan_far_reportable (c_fs (drop_log st_ex)) PNothing [] stF eq_refl open_far). Qed.

Example C11_fired_is_io_inst :
  match open Px (c_fs (drop_log st_ex)) (Some plan_hit) PNothing [] with
  | OpenOk st => ~ fired plan_hit (w_ctx (s_wr st))
  | OpenIo _ _ => True
  | OpenCorruption c => ~ fired plan_hit c
  | OpenFuel _ => False
  end.
Proof. exact (PropC11.C11_fired_is_io Px plan_hit plan_hit_reportable (c_fs (drop_log st_ex)) PNothing [] eq_refl Px_BS_lo). Qed.

Example C11_fired_computed :
  match open Px (c_fs (drop_log st_ex)) (Some plan_hit) PNothing [] with
  | OpenIo IoPermissionDenied c => fired plan_hit c
  | _ => False
  end.
Proof. vm_compute. reflexivity. Qed.

(* C11_corruption_means_not_fired: open = OpenCorruption: an append "in the past" in the log *)
Definition T_cor : bytes :=
  Eval vm_compute in
    ResyncProofs.encs_of Px 0 (map entry_ser [EPosition qA 5; EAppend qA 2 [(2, ["x"%byte])]]).
Definition fs_cor : fsT := [(filename 0, FFile (T_cor ++ zerosN (64 - lenN T_cor)))].
Definition c_cor : ioctx :=
  Eval vm_compute in match open Px fs_cor (Some plan_far) PNothing [] with
                     | OpenCorruption c => c | _ => ctx_init [] None end.
Lemma open_cor : open Px fs_cor (Some plan_far) PNothing [] = OpenCorruption c_cor.
Proof. vm_compute. reflexivity. Qed.

Example C11_corruption_means_not_fired_inst : ~ fired plan_far c_cor.
Proof. exact (PropC11.C11_corruption_means_not_fired Px plan_far plan_far_reportable fs_cor PNothing [] c_cor eq_refl open_cor). Qed.

(* R2: the plans excluded from C11 (site Read, kind UnexpectedEof). The directory of st_ex has
   three files of two blocks; without a fault open reads 8 times and recovers both queues.
   - plan_abs fires at the second read (file 4, block 1): read_block reports "no more blocks in
     this file", the rest of file 4 is skipped, open returns a log although the fault has fired:
     queue a is missing, and the GC that ends open unlinks file 4;
   - the same plan with another kind is reported (C11_fired_is_io);
   - plan_abs0 fires at the first read of recovery, which uses `?`: reported as UnexpectedEof,
     the one case left by C11_absorbed_eof_only_first_read. *)
Definition plan_abs : fplan := mkPlan SRead 1 false IoUnexpectedEof.
Definition plan_abs_other : fplan := mkPlan SRead 1 false IoOther.
Definition plan_abs0 : fplan := mkPlan SRead 0 false IoUnexpectedEof.

Example plan_abs_not_reportable : absorbed plan_abs /\ ~ reportable plan_abs.
Proof. split; [split; reflexivity|]. intros H. apply H. split; reflexivity. Qed.

Example C11_absorbed_computed :
  match open Px (c_fs (drop_log st_ex)) None PNothing [],
        open Px (c_fs (drop_log st_ex)) (Some plan_abs) PNothing [] with
  | OpenOk s0, OpenOk s =>
      abs_qs (s_qs s0) = [(qA, ([(6, pay "v"%byte)], 7)); (qB, ([(0, pay "w"%byte)], 1))] /\
      c_nread (w_ctx (s_wr s0)) = 8 /\
      fired plan_abs (w_ctx (s_wr s)) /\
      abs_qs (s_qs s) = [(qB, ([(0, pay "w"%byte)], 1))] /\
      c_nread (w_ctx (s_wr s)) = 7 /\
      In (EvRead (filename 4) 32 32 false) (c_ev (w_ctx (s_wr s))) /\
      In (EvUnlink (filename 4)) (c_ev (w_ctx (s_wr s))) /\
      w_files (s_wr s0) = [4; 5; 6] /\ w_files (s_wr s) = [5; 6]
  | _, _ => False
  end.
Proof. vm_compute. repeat split; try reflexivity; tauto. Qed.

(* the conclusion of C11_fired_is_io is false for plan_abs *)
Example C11_fired_is_io_fails_absorbed :
  ~ match open Px (c_fs (drop_log st_ex)) (Some plan_abs) PNothing [] with
    | OpenOk st => ~ fired plan_abs (w_ctx (s_wr st))
    | OpenIo _ _ => True
    | OpenCorruption c => ~ fired plan_abs c
    | OpenFuel _ => False
    end.
Proof. vm_compute. intros H. apply H. reflexivity. Qed.

Example C11_other_kind_reported :
  match open Px (c_fs (drop_log st_ex)) (Some plan_abs_other) PNothing [] with
  | OpenIo IoOther c => fired plan_abs_other c
  | _ => False
  end.
Proof. vm_compute. reflexivity. Qed.

Example C11_absorbed_first_read_computed :
  match open Px (c_fs (drop_log st_ex)) (Some plan_abs0) PNothing [] with
  | OpenIo IoUnexpectedEof c => fired plan_abs0 c /\ c_nread c = 1
  | _ => False
  end.
Proof. vm_compute. split; reflexivity. Qed.

Example C11_absorbed_eof_only_first_read_inst :
  exists c, rd_open Px (ctx_init (c_fs (drop_log st_ex)) (Some plan_abs0)) = (c, Err IoUnexpectedEof).
Proof.
  destruct (open Px (c_fs (drop_log st_ex)) (Some plan_abs0) PNothing []) as [s|e c|c|c] eqn:E;
    try (exfalso; revert E; vm_compute; discriminate).
  assert (He : e = IoUnexpectedEof) by (revert E; vm_compute; intros H; inversion H; reflexivity).
  subst e. exists c.
  exact (PropC11.C11_absorbed_eof_only_first_read Px plan_abs0 (conj eq_refl eq_refl)
           (c_fs (drop_log st_ex)) PNothing [] c E).
Qed.
