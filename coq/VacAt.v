(* VacAt.v — TASK T14 follow-up: audit of CrashAt.v and the corner (3).
   Instance BS = 32, NB = 2 (FILE = 64): create qa, then the interrupted call
   append qa [10 bytes], which crosses a block AND rolls over to file 1:
     events: Write(file0,19,13 bytes)  Write(file0,32,32 bytes)  Flush SyncData SyncDir
             Create(file1) SetLen(file1,64) Write(file1,0,10 bytes) Flush SyncData SyncDir.
   (a) P_sat 32 2: the premises of jstate_crash_at are satisfiable for this ROLLING call at the
       crash points (0,k) (first write torn), and the theorem is applied.
   (b) real CRC-32, by computation, ALL 64 crash points — including the TRUE CORNER (1,1)..(1,6):
       a torn frame header of fewer than 7 bytes in the last block of the last file, where the
       recovered writer resumes ON non-zero bytes — : recovery gives the state before/after, a
       continuation + restart is the identity, and all 3700 (first crash, crash of the next call)
       pairs are recovered to before/after with continuation + restart identity again.
       No failure of the model in the corner. *)
From Coq Require Import Lia ZArith ZifyN ZifyNat ZifyBool List.
From MRL Require Import Bytes BytesProofs Params Names Frame Record Mem Spec Rolling Log Driver Hist
  WriterProofs SpecRefine RecordProofs StreamProofs ResyncProofs GhostLog ReplaySpec TornProofs
  RestartInv RestartWrite RestartStep OpenReplay RestartFinal CrashTrace CrashAtomic NzcVacuous
  PolicyProofs VacBase VacCrash CrashRecovered CrashRecovered2 CrashHistories JRecover4 CrashAt VacRecovered.
Import ListNotations.
Import CrashAtomic.CrashExample.

Arguments N.add : simpl never.
Arguments N.sub : simpl never.
Arguments N.mul : simpl never.
Arguments N.eqb : simpl never.
Arguments N.ltb : simpl never.
Arguments N.leb : simpl never.
Arguments N.div : simpl never.
Arguments N.modulo : simpl never.

(* ---------- (a) all premises, P_sat 32 2 ---------- *)
Definition Pw : params := P_sat 32 2.
Lemma Pw_BS_lo : 7 < BS Pw. Proof. reflexivity. Qed.
Lemma Pw_BS_hi : BS Pw <= 65542. Proof. intros H; discriminate H. Qed.
Lemma Pw_NB : 1 <= NB Pw. Proof. intros H; discriminate H. Qed.
Lemma Pw_crc : forall t p, crcf Pw t p < 2 ^ 32. Proof. exact crc_sat_lt. Qed.
Lemma Pw_nzc : no_zero_collision Pw. Proof. apply nzc_P_sat. intros H; discriminate H. Qed.

Definition w0s : state :=
  Eval vm_compute in match open Pw [] None (PAlways true) [] with OpenOk s => s | _ => st_dummy end.
Definition w1s : state := Eval vm_compute in fst (step Pw w0s (OCreate qa) false).
Definition o_r : op := OAppend qa None [pay "x"%byte].
Definition w2s : state := Eval vm_compute in fst (step Pw w1s o_r false).
Definition out_r : outcome := Eval vm_compute in snd (step Pw w1s o_r false).
Lemma open_w0 : open Pw [] None (PAlways true) [] = OpenOk w0s. Proof. vm_compute. reflexivity. Qed.
Lemma hrun_w1 : hrun Pw w0s [HCall (OCreate qa) false] = Some (w1s, [OutCreate 19]).
Proof. vm_compute. reflexivity. Qed.
Lemma step_r : step Pw w1s o_r false = (w2s, out_r). Proof. vm_compute. reflexivity. Qed.

Example rolling_shape :
  w_files (s_wr w1s) = [0] /\ w_off (s_wr w1s) = 19 /\ w_files (s_wr w2s) = [0; 1] /\
  w_off (s_wr w2s) = 10 /\ FILE_BYTES Pw = 64.
Proof. vm_compute. repeat split; reflexivity. Qed.

Lemma jstate_w1 : jstate Pw w1s.
Proof.
  pose proof (inv_fresh Pw Pw_BS_lo Pw_BS_hi Pw_NB (PAlways true) w0s open_w0) as HI0.
  destruct (hrun_inv Pw Pw_BS_lo Pw_BS_hi Pw_NB Pw_crc eq_refl eq_refl [HCall (OCreate qa) false] w0s
              gh_fresh HI0) as (st' & outs & G & Er & HI & _).
  { eapply hist_ok_call; [vm_compute; reflexivity | wf_tacv | unfold phys_bound; le_tacv | exact I]. }
  rewrite hrun_w1 in Er. injection Er as <- _.
  exact (jstate_inv Pw Pw_BS_lo Pw_BS_hi Pw_NB Pw_crc w1s G HI).
Qed.

Lemma call_ok0_r : crash_call_ok0 Pw w1s true o_r false w2s out_r.
Proof.
  split; [reflexivity|]. split; [reflexivity|]. split; [unfold o_r; wf_tacv|].
  split; [apply (crash_phys_bound_by Pw Pw_BS_lo Pw_BS_hi Pw_NB Pw_crc 64); [vm_compute; reflexivity|le_tacv]|].
  split; [apply (crash_phys_bound_by Pw Pw_BS_lo Pw_BS_hi Pw_NB Pw_crc 64); [vm_compute; reflexivity|le_tacv]|].
  exact step_r.
Qed.

Definition evs_r : list event := Eval vm_compute in new_events w1s w2s.
Lemma evs_r_eq : c_ev (w_ctx (s_wr w2s)) = rev evs_r ++ c_ev (w_ctx (s_wr w1s)).
Proof. vm_compute. reflexivity. Qed.

(* the crash points (0,k), k = 0..12: the first write (13 bytes at offset 19) torn *)
Lemma point_ok_r k : k <= 12 -> crash_point_ok Pw w1s (crash_events evs_r 0 k).
Proof.
  intros Hk. assert (Hcases : In k (map N.of_nat (List.seq 0%nat 13%nat))).
  { replace k with (N.of_nat (N.to_nat k)) by lia. apply in_map. apply in_seq. lia. }
  cbn [List.seq map In] in Hcases.
  repeat (destruct Hcases as [<-|Hcases];
          [split; [vm_compute; repeat constructor | le_tacv]|]).
  contradiction.
Qed.

Theorem jstate_crash_at_inst :
  forall k pol hint, k <= 12 -> exists st_r,
    open Pw (fold_left apply_event (crash_events evs_r 0 k) (c_fs (w_ctx (s_wr w1s)))) None pol hint
      = OpenOk st_r /\ jstate Pw st_r /\
    ((forall q, s_get (abs_qs (s_qs st_r)) q = s_get (abs_qs (s_qs w1s)) q) \/
     (forall q, s_get (abs_qs (s_qs st_r)) q = s_get (abs_qs (s_qs w2s)) q)).
Proof.
  intros k pol hint Hk.
  destruct (jstate_crash_at Pw Pw_BS_lo Pw_BS_hi Pw_NB Pw_crc eq_refl eq_refl eq_refl Pw_nzc
              w1s true o_r false w2s out_r jstate_w1 call_ok0_r) as (_ & evs & Hev & Hall).
  assert (E : evs = evs_r).
  { rewrite evs_r_eq in Hev. apply app_inv_tail in Hev. apply (f_equal (@rev event)) in Hev.
    rewrite !rev_involutive in Hev. now symmetry. }
  subst evs.
  destruct (Hall 0 k pol hint (point_ok_r k Hk)) as (st_r & Ho & Hj & _ & _ & Ha).
  exists st_r. auto.
Qed.

(* ---------- (b) the real CRC-32: every crash point, including the true corner ---------- *)
Definition Pc : params := mkParams 32 2 Crc.crc32 0 false false false.
Definition c0s : state :=
  Eval vm_compute in match open Pc [] None (PAlways true) [] with OpenOk s => s | _ => st_dummy end.
Definition c1s : state := Eval vm_compute in fst (step Pc c0s (OCreate qa) false).
Definition c2s : state := Eval vm_compute in fst (step Pc c1s o_r false).
Definition evs_c : list event := Eval vm_compute in new_events c1s c2s.

Definition h_cont : list hop :=
  [HCall (OAppend qa None [pay "z"%byte]) false; HCall (OCreate qb) false;
   HCall (OAppend qb None [pay "w"%byte; pay "w"%byte]) false; HCall (OTruncate qa 100 [qb]) false;
   HCall (OAppend qa None [pay "v"%byte]) false].

Definition cont_restart_ok (s : state) : bool :=
  match hrun Pc s h_cont with
  | Some (st2, _) =>
      match restart Pc st2 (PAlways true) [] with
      | OpenOk st3 => smap_ext_eqb (abs_qs (s_qs st3)) (abs_qs (s_qs st2))
      | _ => false
      end
  | None => false
  end.

(* (cut, k, 1 = before / 2 = after / 0 = bad, recovered w_file, recovered w_off,
    continuation + restart identity) *)
Definition corner_verdict (ck : N * N) : N * N * N * N * N * bool :=
  let img := fold_left apply_event (crash_events evs_c (fst ck) (snd ck)) (c_fs (w_ctx (s_wr c1s))) in
  match open Pc img None (PAlways true) [] with
  | OpenOk sr =>
      let v := if smap_ext_eqb (abs_qs (s_qs sr)) (abs_qs (s_qs c1s)) then 1
               else if smap_ext_eqb (abs_qs (s_qs sr)) (abs_qs (s_qs c2s)) then 2 else 0 in
      (fst ck, snd ck, v, w_file (s_wr sr), w_off (s_wr sr), cont_restart_ok sr)
  | _ => (fst ck, snd ck, 0, 0, 0, false)
  end.

(* the true corner: crash after 1..6 bytes of the 32-byte write at offset 32 of file 0 (the last
   block of the only file): the writer resumes at offset 32, on the non-zero torn header *)
Example true_corner :
  map corner_verdict [(1,1); (1,2); (1,3); (1,4); (1,5); (1,6)] =
  [(1,1,1,0,32,true); (1,2,1,0,32,true); (1,3,1,0,32,true);
   (1,4,1,0,32,true); (1,5,1,0,32,true); (1,6,1,0,32,true)] /\
  (* the file really holds non-zero bytes at the writer's position *)
  (let img := fold_left apply_event (crash_events evs_c 1 3) (c_fs (w_ctx (s_wr c1s))) in
   all_zero (dropN 32 (PolicyProofs.fcontent img 0)) = false).
Proof. vm_compute. split; reflexivity. Qed.

(* all crash points of the call *)
Example all_points_ok :
  lenN (crash_points evs_c) = 64 /\
  forallb (fun ck => match corner_verdict ck with (_, _, v, _, _, ok) => negb (v =? 0) && ok end)
          (crash_points evs_c) = true.
Proof. vm_compute. split; reflexivity. Qed.

(* a second crash, during the next call after the recovery, at every point, for every first
   crash point: number of (first, second) pairs, and the number of failures *)
Definition o_n : op := OAppend qa None [pay "z"%byte].
Definition second_from (ck : N * N) : list bool :=
  let img := fold_left apply_event (crash_events evs_c (fst ck) (snd ck)) (c_fs (w_ctx (s_wr c1s))) in
  match open Pc img None (PAlways true) [] with
  | OpenOk sr =>
      let sr' := fst (step Pc sr o_n false) in
      let evs3 := new_events sr sr' in
      map (fun ck2 =>
        let img2 := fold_left apply_event (crash_events evs3 (fst ck2) (snd ck2)) (c_fs (w_ctx (s_wr sr))) in
        match open Pc img2 None (PAlways true) [] with
        | OpenOk sq =>
            (smap_ext_eqb (abs_qs (s_qs sq)) (abs_qs (s_qs sr)) ||
             smap_ext_eqb (abs_qs (s_qs sq)) (abs_qs (s_qs sr'))) && cont_restart_ok sq
        | _ => false
        end) (crash_points evs3)
  | _ => [false]
  end.
Example second_crash_everywhere :
  let vs := flat_map second_from (crash_points evs_c) in
  (lenN vs, lenN (filter negb vs)) = (3700, 0).
Proof. vm_compute. reflexivity. Qed.

Print Assumptions jstate_crash_at_inst.
