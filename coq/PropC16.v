(* PropC16.v — C16: memory accounting tracks retained data and is released by truncation.
   Statements only; proofs in SpecRefine.v (formula) and MemAcctProofs.v (corollaries).
   K = RMS P = size_of::<RecordMeta>(), read from the crate at run time. *)
From MRL Require Import Bytes Params Names Frame Record Mem Spec Rolling Log Hist SpecRefine MemAcctProofs.

(* memory_used = queue-name bytes + retained payload bytes + K per retained record, exactly *)
Theorem C16_used_exact : forall (P : params) st,
  qs_inv (s_qs st) ->
  log_memory_used P st =
  s_names (abs_qs (s_qs st)) + s_payload (abs_qs (s_qs st)) + RMS P * s_nrecs (abs_qs (s_qs st)).
Proof. exact used_is_names_payload_meta. Qed.
Print Assumptions C16_used_exact.

(* at least names + payload, and above them by at most K per retained record *)
Theorem C16_used_bounds : forall (P : params) st,
  qs_inv (s_qs st) ->
  s_names (abs_qs (s_qs st)) + s_payload (abs_qs (s_qs st)) <= log_memory_used P st /\
  log_memory_used P st <=
    s_names (abs_qs (s_qs st)) + s_payload (abs_qs (s_qs st)) + RMS P * s_nrecs (abs_qs (s_qs st)).
Proof. exact used_bounds. Qed.
Print Assumptions C16_used_bounds.

(* a truncation lowers it by exactly what it evicts *)
Theorem C16_truncate_releases : forall (P : params) st q p hint tick st' ev n,
  qs_inv (s_qs st) ->
  step P st (OTruncate q p hint) tick = (st', OutTruncate ev n) ->
  exists recs nx,
    s_get (abs_qs (s_qs st)) q = Some (recs, nx) /\
    ev = lenN (filter (fun r => fst r <=? p) recs) /\
    log_memory_used P st =
      log_memory_used P st' + payload_bytes (filter (fun r => fst r <=? p) recs) + RMS P * ev.
Proof. exact truncate_releases. Qed.
Print Assumptions C16_truncate_releases.

(* names-only baseline once every queue is empty *)
Theorem C16_baseline_when_empty : forall (P : params) st,
  qs_inv (s_qs st) -> all_empty (abs_qs (s_qs st)) ->
  log_memory_used P st = s_names (abs_qs (s_qs st)).
Proof. exact used_baseline_when_empty. Qed.
Print Assumptions C16_baseline_when_empty.

(* the payload buffer of a queue is exactly the concatenation of its retained payloads:
   nothing evicted stays behind, nothing retained is missing *)
Theorem C16_buffer_is_retained_payload : forall q,
  mq_inv q -> q_buf q = concat (map snd (records_of (q_buf q) (q_metas q))).
Proof. exact buf_is_concat. Qed.
Print Assumptions C16_buffer_is_retained_payload.

Example C16_nonvacuous :
  let st := mkSt (mkWr (ctx_init [] None) [0] 0 0 [])
                 [(["q"%byte], mkMq [x01; x02; x03] 5 [mkMeta 0 None 7; mkMeta 1 (Some 0) 9])]
                 PNothing in
  log_memory_used (mkParams 32 2 (fun _ _ => 0) 24 false false false) st = 1 + 3 + 24 * 2.
Proof. vm_compute. reflexivity. Qed.
Print Assumptions C16_nonvacuous.
