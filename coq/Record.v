(* Record.v — src/record.rs: MultiPlexedRecord and MultiRecord (de)serialisation. *)
From MRL Require Import Bytes Params.

(* std::str::from_utf8: well-formed UTF-8 (Unicode table 3-7) *)
Definition cont (b : byte) : bool := (128 <=? b2n b) && (b2n b <=? 191).
Definition inr (lo hi : N) (b : byte) : bool := (lo <=? b2n b) && (b2n b <=? hi).

Fixpoint utf8_valid (bs : bytes) : bool :=
  match bs with
  | [] => true
  | b0 :: r =>
      let n := b2n b0 in
      if n <? 128 then utf8_valid r
      else if inr 194 223 b0 then
        match r with b1 :: r1 => cont b1 && utf8_valid r1 | _ => false end
      else if inr 224 239 b0 then
        match r with
        | b1 :: b2 :: r2 =>
            (if n =? 224 then inr 160 191 b1
             else if n =? 237 then inr 128 159 b1
             else cont b1) && cont b2 && utf8_valid r2
        | _ => false
        end
      else if inr 240 244 b0 then
        match r with
        | b1 :: b2 :: b3 :: r3 =>
            (if n =? 240 then inr 144 191 b1
             else if n =? 244 then inr 128 143 b1
             else cont b1) && cont b2 && cont b3 && utf8_valid r3
        | _ => false
        end
      else false
  end.

(* one WAL entry *)
Inductive entry :=
| EAppend (q : bytes) (pos : N) (recs : list (N * bytes))
| ETruncate (q : bytes) (pos : N)
| EPosition (q : bytes) (pos : N)     (* RecordType::Touch = RecordPosition *)
| EDelete (q : bytes) (pos : N).

Definition entry_queue (e : entry) : bytes :=
  match e with EAppend q _ _ | ETruncate q _ | EPosition q _ | EDelete q _ => q end.

(* MultiRecord::serialize_with_pos *)
Fixpoint multi_ser (recs : list (N * bytes)) : bytes :=
  match recs with
  | [] => []
  | (p, payload) :: r => le_enc 8 p ++ le_enc 4 (lenN payload) ++ payload ++ multi_ser r
  end.

(* MultiRecord::serialize(payloads, position): positions position, position+1, ... *)
Fixpoint number_from (p : N) (payloads : list bytes) : list (N * bytes) :=
  match payloads with [] => [] | x :: r => (p, x) :: number_from (p + 1) r end.

(* MultiRecord::new — validate the whole buffer, then iterate *)
Fixpoint multi_parse (fuel : nat) (buf : bytes) : option (list (N * bytes)) :=
  match buf with
  | [] => Some []
  | _ =>
    match fuel with
    | O => None
    | S fuel' =>
        if lenN buf <? 12 then None
        else
          let pos := le_dec (takeN 8 buf) in
          let len := le_dec (sliceN 8 12 buf) in
          let body := dropN 12 buf in
          if lenN body <? len then None
          else match multi_parse fuel' (dropN len body) with
               | Some r => Some ((pos, takeN len body) :: r)
               | None => None
               end
    end
  end.

Definition multi_fuel (buf : bytes) : nat := N.to_nat (lenN buf / 12 + 1).

Definition ser_raw (tag pos : N) (q : bytes) (payload : bytes) : bytes :=
  n2b tag :: le_enc 8 pos ++ le_enc 2 (lenN q) ++ q ++ payload.

(* RecordType: Truncate = 1, Touch = 2, DeleteQueue = 3, AppendRecords = 4 *)
Definition entry_ser (e : entry) : bytes :=
  match e with
  | EAppend q pos recs => ser_raw 4 pos q (multi_ser recs)
  | ETruncate q pos => ser_raw 1 pos q []
  | EPosition q pos => ser_raw 2 pos q []
  | EDelete q pos => ser_raw 3 pos q []
  end.

Definition entry_deser (buf : bytes) : option entry :=
  if lenN buf <? 11 then None
  else
    let tag := le_dec (takeN 1 buf) in
    let pos := le_dec (sliceN 1 9 buf) in
    let qlen := le_dec (sliceN 9 11 buf) in
    let body := dropN 11 buf in
    if negb ((1 <=? tag) && (tag <=? 4)) then None
    else if lenN body <? qlen then None
    else
      let q := takeN qlen body in
      let payload := dropN qlen body in
      if negb (utf8_valid q) then None
      else match tag with
           | 4 => match multi_parse (multi_fuel payload) payload with
                  | Some recs => Some (EAppend q pos recs)
                  | None => None
                  end
           | 1 => Some (ETruncate q pos)
           | 2 => Some (EPosition q pos)
           | _ => Some (EDelete q pos)
           end.
