(* PropC15.v — C15: wal_bytes_written equals the bytes actually appended to the WAL.
   Statements only; proofs in WriterProofs.v *)
From Coq Require Import Lia.
From MRL Require Import Bytes Params Names Frame Record Mem Rolling Log Hist WriterProofs.

(* The record writer, over ANY block writer that counts the bytes it accepts: the count returned
   by write_record is the number of bytes pushed (headers, payload, end-of-block padding). *)
Theorem C15_record_count_generic :
  forall (P : params) (W : Type) (wwrite : W -> bytes -> W * res unit) (wrem : W -> N)
         (wcount : W -> N),
    (forall w d w', wwrite w d = (w', Ok tt) -> wcount w' = wcount w + lenN d) ->
    forall w payload w' n,
      write_record P W wwrite wrem w payload = (w', Ok n) -> wcount w' = wcount w + n.
Proof. exact write_record_count. Qed.
Print Assumptions C15_record_count_generic.

(* Every API call: the reported count is the growth of the bytes accepted by the WAL writer
   (bytes in OS-level write events + bytes still in the user-space buffer), GC position entries
   included. *)
Theorem C15_bytes_exact : forall (P : params) st o tick st' out n,
  step P st o tick = (st', out) -> outcome_bytes out = Some n ->
  st_accepted st' = st_accepted st + n.
Proof. exact step_bytes_exact. Qed.
Print Assumptions C15_bytes_exact.

(* ... hence it is 0 exactly when the call appended nothing *)
Theorem C15_zero_iff : forall (P : params) st o tick st' out n,
  step P st o tick = (st', out) -> outcome_bytes out = Some n ->
  (n = 0 <-> st_accepted st' = st_accepted st).
Proof.
  intros P st o tick st' out n Hs Hn. pose proof (step_bytes_exact P _ _ _ _ _ _ Hs Hn). lia.
Qed.
Print Assumptions C15_zero_iff.

(* With a flush-per-operation policy (and for create_queue / delete_queue under any policy) the
   count is the number of bytes in the write events the call issued to the files. *)
Theorem C15_bytes_in_write_events : forall (P : params) st o tick st' out n a,
  step P st o tick = (st', out) -> outcome_bytes out = Some n ->
  w_pending (s_wr st) = [] ->
  (s_pol st = PAlways a \/ (exists q, o = OCreate q) \/ (exists q h, o = ODelete q h)) ->
  ev_bytes (c_ev (w_ctx (s_wr st'))) = ev_bytes (c_ev (w_ctx (s_wr st))) + n.
Proof. exact step_bytes_in_write_events. Qed.
Print Assumptions C15_bytes_in_write_events.

(* The running sum over any history without I/O failure tracks the bytes accepted by the writer *)
Theorem C15_running_sum : forall (P : params) h st st' outs,
  run P st h = (st', outs) -> forallb (fun o => negb (is_io o)) outs = true ->
  st_accepted st' = st_accepted st + sum_reported outs.
Proof. exact run_bytes_tracked. Qed.
Print Assumptions C15_running_sum.

(* non-vacuity: a concrete log (block size 32, two blocks per file), a create and an append whose
   entry is cut into two frames by the block end: 19 bytes, then 7+25 + 7+5 = 44 bytes *)
Definition P15 : params := mkParams 32 2 (fun _ _ => 0) 24 false false false.
Definition st15 : state :=
  mkSt (mkWr (ctx_init [(filename 0, FFile (zerosN 64))] None) [0] 0 0 []) [] (PAlways false).
Example C15_nonvacuous :
  let '(st1, o1) := step P15 st15 (OCreate ["q"%byte]) false in
  let '(st2, o2) := step P15 st1 (OAppend ["q"%byte] None [zerosN 6]) false in
  o1 = OutCreate 19 /\ o2 = OutAppend (Some 0) 44 /\
  st_accepted st1 = 19 /\ st_accepted st2 = 63 /\ w_pending (s_wr st2) = [].
Proof. vm_compute. repeat split; reflexivity. Qed.
Print Assumptions C15_nonvacuous.
