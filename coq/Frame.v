(* Frame.v — src/frame/{header,writer,reader}.rs, generic in the block writer / reader. *)
From MRL Require Import Bytes Params.

Inductive ftype := Full | First | Middle | Last.

Definition ft_code (t : ftype) : N :=
  match t with Full => 1 | First => 2 | Middle => 3 | Last => 4 end.

Definition ft_of_code (n : N) : option ftype :=
  match n with 1 => Some Full | 2 => Some First | 3 => Some Middle | 4 => Some Last | _ => None end.

Definition is_first_frame (t : ftype) : bool :=
  match t with Full | First => true | _ => false end.
Definition is_last_frame (t : ftype) : bool :=
  match t with Full | Last => true | _ => false end.

(* recordlog/writer.rs: frame_type(is_first, is_last) *)
Definition frame_type (is_first is_last : bool) : ftype :=
  match is_first, is_last with
  | true, true => Full | true, false => First | false, true => Last | false, false => Middle
  end.

Section WithParams.
Variable P : params.

(* Header::serialize: crc (u32 LE) | len (u16 LE) | type *)
Definition header_bytes (crc len : N) (t : ftype) : bytes :=
  le_enc 4 crc ++ le_enc 2 len ++ [n2b (ft_code t)].

Definition frame_bytes (t : ftype) (payload : bytes) : bytes :=
  header_bytes (crcf P (n2b (ft_code t)) payload) (lenN payload) t ++ payload.

Definition max_writable (rem : N) : N :=
  if HEADER_LEN <=? rem then rem - HEADER_LEN else BS P - HEADER_LEN.

(* ---------- writer, generic in BlockWrite ---------- *)
Section Writer.
Variable W : Type.
(* BlockWrite::write(&mut self, buf) -> io::Result<()>: the writer after the call + the result *)
Variable wwrite : W -> bytes -> W * res unit.
Variable wrem : W -> N.

(* FrameWriter::write_frame: the writer after the call and the bytes pushed *)
Definition write_frame (w : W) (t : ftype) (payload : bytes) : W * res N :=
  let rem := wrem w in
  let '(w1, r1) :=
    if rem <? HEADER_LEN
    then match wwrite w (zerosN rem) with
         | (w1, Ok _) => (w1, Ok rem)
         | (w1, Err e) => (w1, Err e)
         end
    else (w, Ok 0) in
  match r1 with
  | Err e => (w1, Err e)
  | Ok padded =>
      match wwrite w1 (frame_bytes t payload) with
      | (w2, Ok _) => (w2, Ok (padded + (HEADER_LEN + lenN payload)))
      | (w2, Err e) => (w2, Err e)
      end
  end.

(* RecordWriter::write_record's loop; fuel bounds the number of frames *)
Fixpoint write_record_loop (fuel : nat) (w : W) (is_first : bool) (payload : bytes) (acc : N)
  : W * res N :=
  match fuel with
  | O => (w, Ok acc)          (* unreachable with write_record's fuel: WriterProofs *)
  | S fuel' =>
      let n := N.min (max_writable (wrem w)) (lenN payload) in
      let frame_payload := takeN n payload in
      let rest := dropN n payload in
      let is_last := isnil rest in
      match write_frame w (frame_type is_first is_last) frame_payload with
      | (w1, Err e) => (w1, Err e)
      | (w1, Ok k) =>
          if is_last then (w1, Ok (acc + k))
          else write_record_loop fuel' w1 false rest (acc + k)
      end
  end.

Definition record_fuel (payload : bytes) : nat :=
  N.to_nat (lenN payload / (BS P - HEADER_LEN) + 3).

Definition write_record (w : W) (payload : bytes) : W * res N :=
  write_record_loop (record_fuel payload) w true payload 0.
End Writer.

(* ---------- reader, generic in BlockRead ---------- *)
Section Reader.
Variable R : Type.
Variable rnext : R -> R * res bool.       (* next_block; the reader keeps its own trace *)
Variable rblock : R -> bytes.

Record freader := mkFR { fr_rd : R; fr_cursor : N; fr_corrupt : bool }.

Inductive fresult :=
| FOk (t : ftype) (payload : bytes)
| FIo (e : ioerr)
| FCorrupt
| FNotAvail.

Definition fr_open (r : R) : freader := mkFR r 0 false.

(* FrameReader::read_frame *)
Definition read_frame (fr : freader) : freader * fresult :=
  let need_skip := fr_corrupt fr || (BS P - fr_cursor fr <? HEADER_LEN) in
  let step1 : freader * option fresult :=
    if need_skip then
      match rnext (fr_rd fr) with
      | (r', Err e) => (mkFR r' (fr_cursor fr) (fr_corrupt fr), Some (FIo e))
      | (r', Ok false) => (mkFR r' (fr_cursor fr) (fr_corrupt fr), Some FNotAvail)
      | (r', Ok true) => (mkFR r' 0 false, None)
      end
    else (fr, None) in
  match step1 with
  | (fr1, Some e) => (fr1, e)
  | (fr1, None) =>
      let blk := rblock (fr_rd fr1) in
      let c := fr_cursor fr1 in
      let hdr := sliceN c (c + HEADER_LEN) blk in
      if all_zero hdr then (fr1, FNotAvail)
      else
        let checksum := le_dec (takeN 4 hdr) in
        let len := le_dec (sliceN 4 6 hdr) in
        match ft_of_code (le_dec (dropN 6 hdr)) with
        | None => (mkFR (fr_rd fr1) c true, FCorrupt)
        | Some t =>
            let c1 := c + HEADER_LEN in
            if BS P <? c1 + len then (mkFR (fr_rd fr1) c1 true, FCorrupt)
            else
              let payload := sliceN c1 (c1 + len) blk in
              let fr2 := mkFR (fr_rd fr1) (c1 + len) (fr_corrupt fr1) in
              if crcf P (n2b (ft_code t)) payload =? checksum
              then (fr2, FOk t payload)
              else (fr2, FCorrupt)
        end
  end.

Record rreader := mkRR { rr_fr : freader; rr_buf : bytes; rr_within : bool }.

Inductive rresult :=
| RRecord            (* Ok(true): rr_buf holds a record *)
| REnd               (* Ok(false) *)
| RCorrupt
| RIo (e : ioerr)
| RFuel.             (* model artefact: fuel exhausted *)

Definition rr_open (r : R) : rreader := mkRR (fr_open r) [] false.

(* RecordReader::go_next *)
Fixpoint go_next (fuel : nat) (rr : rreader) : rreader * rresult :=
  match fuel with
  | O => (rr, RFuel)
  | S fuel' =>
      match read_frame (rr_fr rr) with
      | (fr', FOk t payload) =>
          let within := if is_first_frame t then true else rr_within rr in
          let buf := if is_first_frame t then [] else rr_buf rr in
          if within then
            let buf' := buf ++ payload in
            if is_last_frame t then (mkRR fr' buf' false, RRecord)
            else go_next fuel' (mkRR fr' buf' true)
          else go_next fuel' (mkRR fr' buf within)
      | (fr', FCorrupt) => (mkRR fr' (rr_buf rr) false, RCorrupt)
      | (fr', FIo e) => (mkRR fr' (rr_buf rr) false, RIo e)
      | (fr', FNotAvail) => (mkRR fr' (rr_buf rr) (rr_within rr), REnd)
      end
  end.
End Reader.
End WithParams.

Arguments mkFR {R}.
Arguments fr_rd {R}.
Arguments fr_cursor {R}.
Arguments fr_corrupt {R}.
Arguments mkRR {R}.
Arguments rr_fr {R}.
Arguments rr_buf {R}.
Arguments rr_within {R}.
