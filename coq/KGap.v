(* KGap.v — TASK T14 follow-up (gap): a run of complete frames of an unfinished record that ends
   exactly at a block boundary (pjunk_at) can be appended to a prefix with pre_cont; it needs NO
   room after it (rm = 0), adds no corruption, keeps the admissible boundaries. *)
From Coq Require Import Lia ZArith ZifyN ZifyNat ZifyBool List Sorted.
From MRL Require Import Bytes BytesProofs Params Frame Driver StreamProofs DamageProofs TornProofs
  ResyncProofs OpenTerm OpenReplay TornFile JunkStream KAlign.

Arguments N.add : simpl never.
Arguments N.sub : simpl never.
Arguments N.mul : simpl never.
Arguments N.eqb : simpl never.
Arguments N.ltb : simpl never.
Arguments N.leb : simpl never.
Arguments N.div : simpl never.
Arguments N.modulo : simpl never.
Arguments N.min : simpl never.
Arguments N.max : simpl never.

Section KGap.
Variable P : params.
Hypothesis HBS_lo : 7 < BS P.
Hypothesis HBS_hi : BS P <= 65542.
Hypothesis Hcrc : forall t p, crcf P t p < 2 ^ 32.

Local Notation B := (BS P).
Local Notation gonext := (go_next P vecr (vr_next P) vr_block).
Local Notation encrel := (enc_rel P).
Local Notation rdat := (rd_at P).
Local Notation atpos := (at_pos P).
Local Notation sok := (stream_ok P).
Local Notation ffp := (first_frame_pos P).
Local Notation bpos := (bpos P).
Local Notation readsC := (reads_trc P (vr_next P) vr_block).
Local Notation H3 f := (f P HBS_lo HBS_hi Hcrc) (only parsing).
Local Notation H2 f := (f P HBS_lo HBS_hi) (only parsing).

Definition pjunk_at (a r : N) (W : bytes) : Prop :=
  a + 7 <= r /\ lenN W = r - a /\ ffp r = r /\
  forall S pre post,
    sok S -> S = pre ++ W ++ post -> lenN pre = a -> r <= lenN S ->
    (forall fr rbuf within, atpos S fr a ->
       exists w1, q_walk P S (r - a) r (mkRR fr rbuf within) w1) /\
    (forall kb rbuf, ffp a < kb * B -> kb * B < r ->
       exists w1, q_walk P S (r - kb * B) r (mkRR (rdat S kb 0) rbuf false) w1).

Theorem pjunk_of_aligned a x e k j m :
  encrel a true x e k -> j < lenN e -> a + j = m * B -> ffp a < m * B ->
  pjunk_at a (m * B) (takeN j e).
Proof.
  intros He Hj Haj Hffp.
  destruct (H3 aligned_walk a true x e k He j m Hj Haj Hffp) as (H7 & Hw).
  split; [exact H7|]. split; [rewrite lenN_takeN; lia|]. split; [apply (H2 ffp_aligned)|].
  intros S pre post Hok HS Hpre Hlen.
  destruct (Hw S pre post Hok HS Hpre Hlen) as (HA & _ & HD).
  replace (m * B - a) with j by lia.
  split.
  - intros fr rbuf within Hat. exists true. exact (HA fr rbuf within Hat (or_introl eq_refl)).
  - intros kb rbuf H1 H2'. exists false. exact (HD kb rbuf H1 H2').
Qed.

Theorem pre_cont_pjunk PRE ops opos adm cmax rm r W :
  pre_cont P PRE ops opos adm cmax rm -> pjunk_at (lenN PRE) r W -> rm <= 7 ->
  pre_cont P (PRE ++ W) ops opos adm cmax 0.
Proof.
  intros ((Hlen & Hpos) & Hcont) (Har & HlW & Hfr & Hwalk) Hrm.
  set (a := lenN PRE) in *.
  assert (Ha2 : lenN (PRE ++ W) = r) by (rewrite lenN_app; fold a; lia).
  split.
  { split; [exact Hlen|]. rewrite Ha2. eapply Forall_impl; [|exact Hpos]. cbn beta. intros s H. lia. }
  intros kb post S buf0 gofuel HS Hok Hblk Hadm Hkb Hroom Hgf.
  rewrite Ha2 in *. rewrite <- app_assoc in HS. rewrite Hfr in Hkb.
  pose proof (H2 ffp_ge a) as Hffa.
  assert (HrS : r <= lenN S) by lia.
  destruct (Hwalk S PRE post Hok HS eq_refl HrS) as (HwA & HwD).
  destruct (N.le_gt_cases r (kb * B)) as [HR|HR].
  - (* the boundary is the end of the junk *)
    destruct (H3 arrive_after S r kb buf0 gofuel Hok HR ltac:(lia) Hblk ltac:(lia)) as (rr1 & Harr).
    rewrite (H3 dfilter_none (kb * B) ops opos).
    2:{ eapply Forall_impl; [|exact Hpos]. cbn beta. fold a. intros s H. lia. }
    exists [], 0%nat, (mkRR (rdat S kb 0) buf0 false), rr1, gofuel.
    cbn [combine length map app Nat.add].
    split; [reflexivity|]. split; [constructor|]. split; [lia|]. split; [exact Harr|].
    intros l' c' rrf H. exact H.
  - destruct (N.le_gt_cases (kb * B) (ffp a)) as [HB|HB].
    + destruct (Hcont kb (W ++ post) S buf0 gofuel HS Hok Hblk Hadm HB ltac:(lia) ltac:(lia))
        as (rrs & c & rr & rr1 & g & Hl0 & Htr0 & Hc & (Hgo & Hat & Hb & Hg & Hpaid) & Hk0).
      destruct rr1 as [fr1 rbuf1 within1]. cbn [rr_fr] in Hat.
      destruct (HwA fr1 rbuf1 within1 Hat) as (w1 & n & rr2 & Hn & Hat2 & _ & Hgo2).
      assert (Hgn : (n + 2 <= g)%nat) by lia.
      exists rrs, c, rr, rr2, (g - n)%nat.
      split; [exact Hl0|]. split; [exact Htr0|]. split; [exact Hc|].
      split.
      { split.
        { rewrite Hgo. replace g with (n + (g - n))%nat at 1 by lia. apply Hgo2. }
        split; [exact Hat2|].
        split; [pose proof (ffp_mono P HBS_lo HBS_hi a r ltac:(lia)); lia|].
        split; [lia|]. lia. }
      exact Hk0.
    + (* the boundary is strictly inside the junk *)
      rewrite (H3 dfilter_none (kb * B) ops opos).
      2:{ eapply Forall_impl; [|exact Hpos]. cbn beta. fold a. intros s H. lia. }
      destruct (HwD kb buf0 HB HR) as (w1 & n & rr2 & Hn & Hat2 & _ & Hgo2).
      assert (Hgn : (n + 2 <= gofuel)%nat) by lia.
      exists [], 0%nat, (mkRR (rdat S kb 0) buf0 false), rr2, (gofuel - n)%nat.
      cbn [combine length map app Nat.add].
      split; [reflexivity|]. split; [constructor|]. split; [lia|].
      split.
      { split.
        { replace gofuel with (n + (gofuel - n))%nat at 1 by lia. apply Hgo2. }
        split; [exact Hat2|].
        split; [cbn [rr_fr]; rewrite (H3 bpos_rd_at) by exact Hblk; lia|].
        split; [lia|]. lia. }
      intros l' c' rrf H. exact H.
Qed.

End KGap.

Print Assumptions pjunk_of_aligned.
Print Assumptions pre_cont_pjunk.
