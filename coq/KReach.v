(* KReach.v — TASK T14 follow-up (2): a file that appears during a crash prefix of a call was
   created by a roll-over, and the data written by the prefix reaches the start of that file. *)
From Coq Require Import Lia ZArith ZifyN ZifyNat ZifyBool List.
From MRL Require Import Bytes BytesProofs Params Names NamesProofs Mem Rolling Driver PolicyProofs GcProofs
  RestartGc CrashTrace.

Arguments N.add : simpl never.
Arguments N.sub : simpl never.
Arguments N.mul : simpl never.

Lemma quiet_absent e fs name :
  match e with EvCreate _ => False | _ => True end ->
  fs_get fs name = None -> fs_get (apply_event fs e) name = None.
Proof.
  intros He Hn. destruct e; cbn [apply_event]; try exact Hn.
  - contradiction.
  - destruct (fs_get fs name0) as [[b| |]|] eqn:E; try exact Hn.
    rewrite GcProofs.fs_get_put_other; [exact Hn|]. intros ->. congruence.
  - destruct (fs_get fs name0) as [[b| |]|] eqn:E; try exact Hn.
    rewrite GcProofs.fs_get_put_other; [exact Hn|]. intros ->. congruence.
  - now apply fs_get_remove_none.
Qed.

Lemma created_in pe : forall fs name,
  fs_get fs name = None -> fs_get (fold_left apply_event pe fs) name <> None -> In (EvCreate name) pe.
Proof.
  induction pe as [|e pe IH]; intros fs name Hn Hx; cbn [fold_left] in Hx; [contradiction|].
  destruct (fs_get (apply_event fs e) name) eqn:E.
  - left. destruct e as [|nm|nm|nm len|nm off d|nm off len ok|nm|nm| |nm];
      try (match type of E with fs_get (apply_event _ ?e0) _ = _ =>
             rewrite (quiet_absent e0 fs name I Hn) in E end; discriminate).
    cbn [apply_event] in E.
    destruct (bytes_eqb nm name) eqn:Eb.
    + apply bytes_eqb_eq in Eb. now subst.
    + apply bytes_eqb_neq in Eb. rewrite GcProofs.fs_get_put_other in E by exact Eb. congruence.
  - right. exact (IH _ _ E Hx).
Qed.

Lemma cpre_In_create pe evs : cpre pe evs -> forall nm, In (EvCreate nm) pe -> In (EvCreate nm) evs.
Proof.
  induction 1 as [evs|n off d k evs|e pe evs _ IH]; intros nm Hin.
  - destruct Hin.
  - destruct Hin as [E|[]]. discriminate.
  - destruct Hin as [->|Hin]; [left; reflexivity|right; now apply IH].
Qed.

Section Reach.
Variable P : params.
Local Notation FB := (FILE_BYTES P).

Lemma wtrace_le' f off evs D f' off' : wtrace P f off evs D f' off' -> f <= f'.
Proof. induction 1; lia. Qed.

Lemma wtrace_reach f off evs D f' off' :
  wtrace P f off evs D f' off' ->
  forall pe, cpre pe evs -> forall fs name,
    fs_get fs name = None -> fs_get (fold_left apply_event pe fs) name <> None ->
    exists n, name = filename n /\ f < n /\ n <= f' /\ (n - f) * FB <= off + lenN (ev_data pe).
Proof.
  induction 1 as [f off|f off d evs D f' off' Hfit Htr IH|f evs D f' off' Htr IH];
    intros pe Hpe fs name Hn Hx.
  - inversion Hpe; subst. cbn [fold_left] in Hx. contradiction.
  - inversion Hpe as [evs0|n0 off0 d0 k evs0|e pe' evs0 Hpe']; subst.
    + cbn [fold_left] in Hx. contradiction.
    + cbn [fold_left] in Hx. match type of Hx with fs_get (apply_event _ ?e0) _ <> _ =>
        rewrite (quiet_absent e0 fs name I Hn) in Hx end. contradiction.
    + cbn [fold_left] in Hx.
      destruct (IH pe' Hpe' _ name (quiet_absent (EvWrite (filename f) off d) fs name I Hn) Hx) as (n & E & H1 & H2 & H3).
      exists n. split; [exact E|]. split; [exact H1|]. split; [exact H2|].
      cbn [ev_data]. rewrite lenN_app. lia.
  - pose proof (wtrace_le' _ _ _ _ _ _ Htr) as Hle.
    assert (Hgrp : forall nm, In (EvCreate nm) (roll_group P f) -> nm = filename (f + 1)).
    { intros nm Hin. unfold roll_group in Hin. cbn [In] in Hin.
      destruct Hin as [E|[E|[E|[E|[E|[]]]]]]; try discriminate. now injection E. }
    destruct (cpre_app_inv _ _ _ Hpe) as [Hl|(pt & -> & Hr)].
    + pose proof (created_in pe fs name Hn Hx) as Hin.
      apply (cpre_In_create _ _ Hl) in Hin. apply Hgrp in Hin.
      exists (f + 1). split; [exact Hin|]. split; [lia|]. split; [lia|].
      replace (f + 1 - f) with 1 by lia. lia.
    + rewrite fold_left_app in Hx. rewrite ev_data_app.
      change (ev_data (roll_group P f)) with (@nil byte). cbn [app].
      destruct (fs_get (fold_left apply_event (roll_group P f) fs) name) eqn:E1.
      * assert (Hin : In (EvCreate name) (roll_group P f)).
        { apply (created_in _ fs name Hn). rewrite E1. discriminate. }
        apply Hgrp in Hin.
        exists (f + 1). split; [exact Hin|]. split; [lia|]. split; [lia|].
        replace (f + 1 - f) with 1 by lia. lia.
      * destruct (IH pt Hr _ name E1 Hx) as (n & E & H1 & H2 & H3).
        exists n. split; [exact E|]. split; [lia|]. split; [exact H2|].
        replace (n - f) with ((n - (f + 1)) + 1) by lia. lia.
Qed.

Lemma wtrace_tail_reach f off wevs D f' off' rest :
  (forall nm, ~ In (EvCreate nm) rest) ->
  wtrace P f off wevs D f' off' ->
  forall pe, cpre pe (wevs ++ rest) -> forall fs name,
    fs_get fs name = None -> fs_get (fold_left apply_event pe fs) name <> None ->
    exists n, name = filename n /\ f < n /\ n <= f' /\ (n - f) * FB <= off + lenN (ev_data pe).
Proof.
  intros Hrest Htr pe Hpe fs name Hn Hx.
  destruct (cpre_app_inv _ _ _ Hpe) as [Hl|(pt & -> & Hr)].
  - exact (wtrace_reach _ _ _ _ _ _ Htr pe Hl fs name Hn Hx).
  - rewrite fold_left_app in Hx. rewrite ev_data_app, lenN_app.
    destruct (fs_get (fold_left apply_event wevs fs) name) eqn:E1.
    + destruct (wtrace_reach _ _ _ _ _ _ Htr wevs (cpre_refl _) fs name Hn) as (n & E & H1 & H2 & H3).
      { rewrite E1. discriminate. }
      exists n. split; [exact E|]. split; [exact H1|]. split; [exact H2|]. lia.
    + exfalso. apply (Hrest name). apply (cpre_In_create _ _ Hr). exact (created_in pt _ name E1 Hx).
Qed.

Lemma flush_group_quiet f a nm : ~ In (EvCreate nm) (flush_group f a).
Proof.
  unfold flush_group. destruct a; cbn [In]; intros H.
  - destruct H as [E|[E|[E|[]]]]; discriminate.
  - destruct H as [E|[]]; discriminate.
Qed.

Lemma unlinks_quiet lo m nm : ~ In (EvCreate nm) (unlinks lo m).
Proof. unfold unlinks. intros H. apply in_map_iff in H. destruct H as (x & E & _). discriminate. Qed.

Theorem call_trace_reach lo f0 off0 NEW f1 off1 evs :
  call_trace P lo f0 off0 NEW f1 off1 evs ->
  forall pe, cpre pe evs -> forall fs name,
    fs_get fs name = None -> fs_get (fold_left apply_event pe fs) name <> None ->
    exists n, name = filename n /\ f0 < n /\ n <= f1 /\ (n - f0) * FB <= off0 + lenN (ev_data pe).
Proof.
  intros Hct pe Hpe fs name Hn Hx.
  destruct Hct as [_ _ _|wevs a Htr|wevs m a Htr Hm].
  - inversion Hpe; subst. cbn [fold_left] in Hx. contradiction.
  - apply (wtrace_tail_reach _ _ _ _ _ _ _ (flush_group_quiet f1 a) Htr pe Hpe fs name Hn Hx).
  - refine (wtrace_tail_reach _ _ _ _ _ _ _ _ Htr pe Hpe fs name Hn Hx).
    intros nm Hin. apply in_app_or in Hin. destruct Hin as [Hin|Hin]; [exact (flush_group_quiet _ _ _ Hin)|].
    apply in_app_or in Hin. destruct Hin as [Hin|Hin]; [exact (unlinks_quiet _ _ _ Hin)|].
    exact (flush_group_quiet _ _ _ Hin).
Qed.

End Reach.

Print Assumptions call_trace_reach.
