(* RestartFinal.v — the end-to-end restart theorem (property C01), assembled:
   a clean restart (drop + open) is the identity on the abstract state, for every history of
   calls from a fresh directory with clean restarts anywhere.

   1. inv_reopen: reopening the directory left by a state that satisfies the restart invariant
      succeeds, re-establishes the invariant (for a re-chosen ghost) and gives the same abstract
      content of every queue.
   2. hrun / hrun_inv: histories of calls and restarts.
   3. C01_restart_identity.
   4. a concrete instance (roll-over, GC, restart). *)
From Coq Require Import Lia ZArith ZifyN ZifyNat ZifyBool List Sorted.
From MRL Require Import Bytes BytesProofs Params Names NamesProofs Frame Record Mem Spec Rolling Log
  Driver Hist NoopProofs SpecRefine RecordProofs StreamProofs PolicyProofs GcProofs GhostLog ReplaySpec
  HandleProofs FileStream ResyncProofs QueueIso RestartInv RestartWrite RestartGc RestartStep
  OpenReplay.

Arguments N.add : simpl never.
Arguments N.sub : simpl never.
Arguments N.mul : simpl never.
Arguments N.eqb : simpl never.
Arguments N.ltb : simpl never.
Arguments N.leb : simpl never.
Arguments N.div : simpl never.
Arguments N.modulo : simpl never.
Arguments N.min : simpl never.
Arguments N.max : simpl never.
Arguments N.pow : simpl never.

(* ====================================================================== *)
(* 0. small list facts                                                    *)
(* ====================================================================== *)

Lemma app_eq_len {A} : forall (l1 l1' l2 l2' : list A),
  l1 ++ l2 = l1' ++ l2' -> length l2 = length l2' -> l1 = l1' /\ l2 = l2'.
Proof.
  induction l1 as [|a l1 IH]; intros [|a' l1'] l2 l2' H Hlen; cbn [app] in H.
  - split; [reflexivity|exact H].
  - exfalso. apply (f_equal (@length A)) in H. cbn [length] in H. rewrite app_length in H. lia.
  - exfalso. apply (f_equal (@length A)) in H. cbn [length] in H. rewrite app_length in H. lia.
  - injection H as -> H. destruct (IH l1' l2 l2' H Hlen) as [-> ->]. split; reflexivity.
Qed.

Lemma nth_error_combine {A B} : forall (l1 : list A) (l2 : list B) j a b,
  nth_error l1 j = Some a -> nth_error l2 j = Some b -> nth_error (combine l1 l2) j = Some (a, b).
Proof.
  induction l1 as [|x l1 IH]; intros [|y l2] [|j] a b H1 H2; cbn [nth_error combine] in *;
    try discriminate.
  - now inversion H1; inversion H2.
  - now apply IH.
Qed.

Lemma nth_error_Some_ex {A} (l : list A) j : (j < length l)%nat -> exists a, nth_error l j = Some a.
Proof.
  intros H. destruct (nth_error l j) as [a|] eqn:E; [now exists a|].
  apply nth_error_None in E. lia.
Qed.

Lemma tags_mono_combine : forall (tags : list N) (E : list entry) lo hi,
  length tags = length E -> StronglySorted N.le tags ->
  Forall (fun f => lo <= f /\ f <= hi) tags -> lo <= hi ->
  tags_mono lo (combine tags E) hi.
Proof.
  induction tags as [|f tags IH]; intros [|e E] lo hi Hlen Hs Hr Hle; cbn [length] in Hlen;
    try discriminate; cbn [combine tags_mono]; [exact Hle|].
  inversion Hs as [|? ? Hs' Hf]; subst. inversion Hr as [|? ? [H1 H2] Hr']; subst.
  split; [exact H1|]. apply IH; [lia|exact Hs'| |exact H2].
  rewrite Forall_forall in *. intros x Hx. split; [now apply Hf|now apply Hr'].
Qed.

(* ====================================================================== *)
(* 1. the ghost re-chosen at a restart                                    *)
(* ====================================================================== *)

(* everything before E is forgotten for good; E is re-tagged with the files the reader
   attributes its entries to *)
Definition gh_reopen (G : ghost) (tags : list N) : ghost :=
  mkGhost (gh_base G) (gh_before G) [] (combine tags (map snd (gh_E G))).

Section GhReopen.
Variables (G : ghost) (tags : list N).
Hypothesis Hlen : length tags = length (gh_E G).

Lemma gh_reopen_E_snd : map snd (gh_E (gh_reopen G tags)) = map snd (gh_E G).
Proof. cbn [gh_reopen gh_E]. apply map_snd_combine'. now rewrite map_length. Qed.

Lemma gh_reopen_before : gh_before (gh_reopen G tags) = gh_before G.
Proof. unfold gh_before at 1. cbn [gh_reopen gh_dropped gh_pre map]. apply app_nil_r. Qed.

Lemma gh_reopen_ALL : gh_ALL (gh_reopen G tags) = gh_ALL G.
Proof. now rewrite !gh_ALL_split, gh_reopen_before, gh_reopen_E_snd. Qed.

Lemma gh_reopen_k : gh_k (gh_reopen G tags) = gh_k G.
Proof. now rewrite <- !gh_before_length, gh_reopen_before. Qed.

Lemma gh_reopen_log : gh_log (gh_reopen G tags) = combine tags (map snd (gh_E G)).
Proof. reflexivity. Qed.

Lemma gh_reopen_ser : gh_ser (gh_reopen G tags) = gh_ser G.
Proof. unfold gh_ser. now rewrite gh_reopen_ALL. Qed.

Lemma gh_reopen_ser_before : gh_ser_before (gh_reopen G tags) = gh_ser_before G.
Proof. unfold gh_ser_before. now rewrite gh_reopen_before. Qed.

Lemma gh_reopen_ser_E : gh_ser_E (gh_reopen G tags) = gh_ser_E G.
Proof. unfold gh_ser_E. now rewrite gh_reopen_E_snd. Qed.

Lemma gh_reopen_T P : gh_T P (gh_reopen G tags) = gh_T P G.
Proof. unfold gh_T. now rewrite gh_reopen_ser. Qed.

Lemma gh_reopen_a0 P : gh_a0 P (gh_reopen G tags) = gh_a0 P G.
Proof. unfold gh_a0. now rewrite gh_reopen_ser_before. Qed.
End GhReopen.

(* ---------- the logical half ---------- *)
Lemma linv_reopen qs lo G tags qs' :
  LInv qs lo G -> length tags = length (gh_E G) -> Forall (fun f => lo <= f) tags ->
  replay_entries [] (combine tags (map snd (gh_E G))) = Some qs' -> qs_wf qs' ->
  LInv qs' lo (gh_reopen G tags).
Proof.
  intros (_ & Hleg & _ & F & EF & Hcov) Hlen Htags Hrep Hwf.
  unfold LInv. rewrite (gh_reopen_ALL G tags Hlen), (gh_reopen_k G tags),
    (gh_reopen_E_snd G tags Hlen), gh_reopen_log.
  split; [exact Hwf|]. split; [exact Hleg|]. split; [exact Hrep|].
  exists F. split; [exact EF|].
  intros q rf n Eq. destruct (Hcov q rf n Eq) as (Hc & Hr). split; [exact Hc|].
  eapply Forall_impl; [|exact Hr].
  intros r (j & f & e & Ej & En & _ & Hcr).
  assert (Hj : (j < length tags)%nat).
  { rewrite Hlen. apply nth_error_Some. congruence. }
  destruct (nth_error_Some_ex tags j Hj) as (f' & Ef').
  exists j, f', e. split; [exact Ej|]. split.
  - cbn [gh_reopen gh_E]. apply nth_error_combine; [exact Ef'|].
    now rewrite nth_error_map, En.
  - split; [|exact Hcr]. rewrite Forall_forall in Htags. apply Htags.
    eapply nth_error_In; exact Ef'.
Qed.

(* the queues of a replay with the same abstract content are well-formed *)
Lemma qs_wf_ext qs qs' :
  qs_wf qs -> nodup_names qs' ->
  (forall q, s_get (abs_qs qs') q = s_get (abs_qs qs) q) -> qs_wf qs'.
Proof.
  intros Hwf Hnd Heq n q Hin.
  pose proof (Heq n) as He. rewrite !abs_get, (qs_get_nodup _ _ _ Hnd Hin) in He.
  destruct (qs_get qs n) as [q2|] eqn:E2; [|discriminate].
  destruct (Hwf n q2 (qs_get_In_eq _ _ _ E2)) as (Hn & Hp).
  split; [exact Hn|]. unfold abs_q in He. injection He as _ Hx. now rewrite Hx.
Qed.

Section Final.
Variable P : params.
Hypothesis HBS_lo : 7 < BS P.
Hypothesis HBS_hi : BS P <= 65542.
Hypothesis HNB : 1 <= NB P.
Hypothesis Hcrc : forall t p, crcf P t p < 2 ^ 32.
Hypothesis HGC : L_GC P = false.      (* the current code: the GC persists before unlinking *)
Hypothesis HIO : L_IO P = false.      (* the current code: I/O errors of the replay are reported *)

Local Notation B := (BS P).
Local Notation FB := (FILE_BYTES P).
Local Notation ffp := (first_frame_pos P).
Local Notation enc_of := (enc_of P).
Local Notation encs_of := (encs_of P).
Local Notation cursor_after := (cursor_after P).
Local Notation starts := (starts P).
Local Notation H3 f := (f P HBS_lo HBS_hi Hcrc) (only parsing).
Local Notation H2 f := (f P HBS_lo HBS_hi) (only parsing).
Local Notation HW f := (f P HBS_lo HBS_hi HNB Hcrc) (only parsing).
Local Notation HN f := (f P HBS_lo HBS_hi HNB) (only parsing).
Local Notation HG f := (f P HBS_lo HBS_hi HNB Hcrc HGC) (only parsing).
Local Notation PInv := (PInv P).
Local Notation Inv := (Inv P).
Local Notation stream_bound := (stream_bound P).

Lemma HB0' : 0 < B. Proof. lia. Qed.

(* ====================================================================== *)
(* 2. the physical half: the writer made by open                          *)
(* ====================================================================== *)

(* the tracked files of a writer under the invariant, explicitly *)
Lemma winv_files w : winv P w ->
  exists n, w_files w = iota (wlo w) (S n) /\ w_file w = wlo w + N.of_nat n.
Proof.
  intros (Hok & _). pose proof Hok as [Hc Hl].
  destruct (proj1 (contiguous_iota _) Hc) as (lo & n & Hf).
  destruct (wr_ok_len P HB0' HNB w Hok) as (Hn & _).
  rewrite Hf, (HN iota_last) in Hl. injection Hl as Hl.
  rewrite Hf, lenN_iota in Hn.
  exists n. assert (wlo w = lo) by lia. subst lo. split; [exact Hf|lia].
Qed.

Lemma pinv_reopen w G w0 tags n :
  PInv w G -> w_files w = iota (wlo w) (S n) ->
  kept_spec P (vfs w) (wlo w) n (gh_base G) (gh_ser G) (gh_T P G) w0 tags ->
  length tags = length (gh_E G) /\ Forall (fun f => wlo w <= f) tags /\
  wlo w0 = wlo w /\ PInv w0 (gh_reopen G tags).
Proof.
  intros HP Hfiles Hspec.
  destruct (HW PInv_delivered w G HP) as (Edel & Eskip).
  destruct HP as (Hw & Hwd & Hnd & Hbase & Hc1 & Hc2 & Hs & HWf & HD1 & HD2 & Htags).
  cbn zeta in *.
  destruct Hspec as (Hlen & HF2 & Hsorted & Hrange & Hfl & Hlo & Hcur & Hpos & Hpend & Hfs & Hplan).
  rewrite Edel in Hlen, HF2. rewrite Eskip in HF2. fold (gh_a0 P G) in HF2.
  assert (Hlen' : length tags = length (gh_E G)).
  { rewrite Hlen. unfold gh_ser_E. now rewrite !map_length. }
  pose proof Hw as (Hok & Hwf & Hoff & Hpl & Hu & Hfull & Hfresh).
  destruct (wr_ok_len P HB0' HNB w Hok) as (Hn & _).
  assert (Hnf : lenN (w_files w) = N.of_nat n + 1) by (rewrite Hfiles, lenN_iota; lia).
  assert (Hnf0 : lenN (w_files w0) = N.of_nat n + 1) by (rewrite Hfl, lenN_iota; lia).
  set (lo := wlo w) in *. set (base := gh_base G) in *. set (dl := lo - base) in *.
  set (T := gh_T P G) in *. set (a := lenN T) in *.
  assert (Hwf_w : w_file w = lo + N.of_nat n) by lia.
  assert (Hwpos : wpos P w = N.of_nat n * FB + w_off w).
  { unfold wpos. rewrite Hnf. f_equal. f_equal. lia. }
  rewrite Hwpos in Hc1, Hc2.
  (* the position of the new writer *)
  set (e := N.max (dl * FB) a) in *.
  assert (He1 : a <= e) by lia.
  assert (He2 : e <= dl * FB + (N.of_nat n * FB + w_off w)) by lia.
  assert (Hffe : ffp e = ffp a) by (apply (HN ffp_between); lia).
  assert (Hkey : w_file w0 = lo + N.of_nat n /\ w_off w0 <= FB /\
                 a <= dl * FB + (N.of_nat n * FB + w_off w0) /\
                 dl * FB + (N.of_nat n * FB + w_off w0) <= ffp a).
  { pose proof (H2 ffp_ge a) as Hge.
    destruct Hpos as [(Hp & Hwo) | (Hp & Hwf0 & _ & Hwo)].
    - assert (Hf0 : w_file w0 = lo + N.of_nat n).
      { destruct (N.eq_dec (w_file w0) (lo + N.of_nat n)) as [E|Hne]; [exact E|exfalso].
        assert ((w_file w0 - base + 1) * FB <= (dl + N.of_nat n) * FB)
          by (apply N.mul_le_mono_r; lia).
        lia. }
      split; [exact Hf0|]. split; [lia|].
      replace (dl * FB + (N.of_nat n * FB + w_off w0)) with ((w_file w0 - base) * FB + w_off w0).
      + rewrite Hp, Hffe. lia.
      + rewrite Hf0. replace (lo + N.of_nat n - base) with (dl + N.of_nat n) by lia. lia.
    - split; [exact Hwf0|]. split; [exact Hwo|].
      replace (dl * FB + (N.of_nat n * FB + w_off w0)) with ((w_file w0 - base) * FB + w_off w0).
      + rewrite Hp. lia.
      + rewrite Hwf0. replace (lo + N.of_nat n - base) with (dl + N.of_nat n) by lia. lia. }
  destruct Hkey as (Hf0 & Hoff0 & Hk1 & Hk2).
  assert (Hfl' : w_files w0 = w_files w) by congruence.
  assert (Hfile' : w_file w0 = w_file w) by congruence.
  assert (Hv : vfs w0 = vfs w) by (rewrite vfs_nil; assumption).
  assert (Hok0 : wr_ok w0) by (eapply wr_ok_same; eassumption).
  assert (Hw0 : winv P w0).
  { split; [exact Hok0|]. split; [apply wf_nil; exact Hpend|]. split; [exact Hoff0|].
    split; [exact Hplan|]. split; [rewrite Hfile'; exact Hu|]. rewrite Hv, Hfl', Hfile'.
    split; assumption. }
  assert (Elo : wlo w0 = lo) by (unfold lo, wlo; now rewrite Hfl', Hfile').
  split; [exact Hlen'|]. split.
  { eapply Forall_impl; [|exact Hrange]. intros f [Hf _]. exact Hf. }
  split; [exact Elo|].
  unfold RestartInv.PInv. cbn zeta.
  rewrite (gh_reopen_T G tags Hlen'), (gh_reopen_ALL G tags Hlen'), (gh_reopen_ser_before G tags),
    (gh_reopen_ser_E G tags Hlen'), (gh_reopen_a0 G tags), gh_reopen_log.
  change (gh_base (gh_reopen G tags)) with base. rewrite Elo. fold dl. fold T. fold a.
  split; [exact Hw0|].
  split.
  { (* the directory *)
    split; [exact Hok0|]. intros _. destruct Hwd as [_ Hdir].
    pose proof (flush_buf_dir w (wr_ok_cur_in w Hok) Hu (Hdir Hu)) as Hd.
    unfold dir_ok in *. destruct (flush_buf_tracker w) as [T1 _]. rewrite T1 in Hd.
    rewrite Hfs, Hfl'. exact Hd. }
  split.
  { unfold nd. rewrite Hfs. exact (flush_buf_nd w Hnd). }
  split; [exact Hbase|].
  assert (Hwpos0 : wpos P w0 = N.of_nat n * FB + w_off w0).
  { unfold wpos. rewrite Hnf0. f_equal. f_equal. lia. }
  rewrite Hwpos0.
  split; [exact Hk1|]. split; [exact Hk2|].
  split.
  { unfold wstream in *. rewrite Hv, Hfl'. exact Hs. }
  split; [exact HWf|]. split; [exact HD1|].
  split.
  { (* the starts of E: at or after the boundary (as before), and at or after the start of the
       file the reader attributes them to *)
    assert (Hb : Forall (fun s => dl * FB <= snd s) (starts (gh_a0 P G) (gh_ser_E G))).
    { clear - HD2. induction HD2 as [|x y l1 l2 [Hxy _] _ IH]; constructor; assumption. }
    assert (H1 : Forall2 (fun (fe : N * entry) s => (fst fe - base) * FB <= snd s)
                   (combine tags (map snd (gh_E G))) (starts (gh_a0 P G) (gh_ser_E G))).
    { apply (Forall2_combine_l (fun f s => (f - base) * FB <= snd s)); [|exact HF2].
      now rewrite map_length. }
    pose proof (Forall2_Forall_r _ _ _ _ H1 Hb) as H12.
    eapply Forall2_impl'; [|exact H12]. cbn beta. intros fe s [Hx Hy]. split; assumption. }
  (* the tags *)
  apply tags_mono_combine.
  - now rewrite map_length.
  - exact Hsorted.
  - eapply Forall_impl; [|exact Hrange]. cbn beta. intros f [Hf1 Hf2]. fold lo in Hf1. lia.
  - rewrite Hfile'. lia.
Qed.


(* ====================================================================== *)
(* 3. what the recovery-time GC may write, and its bound                  *)
(* ====================================================================== *)

(* position entries for distinct empty queues of the abstract state m *)
Definition pos_extra (m : smap) (extra : list entry) : Prop :=
  NoDup (map entry_queue extra) /\
  Forall (fun e => exists q p, e = EPosition q p /\ s_get m q = Some ([], p)) extra.

Lemma pos_extra_nil m : pos_extra m [].
Proof. split; constructor. Qed.

Lemma pos_extra_ext m1 m2 x :
  (forall q, s_get m2 q = s_get m1 q) -> pos_extra m1 x -> pos_extra m2 x.
Proof.
  intros He [H1 H2]. split; [exact H1|]. eapply Forall_impl; [|exact H2].
  intros e (q & p & E1 & E2). exists q, p. split; [exact E1|]. now rewrite He.
Qed.

Lemma NoDup_name_remove h : forall l, NoDup l -> NoDup (name_remove h l) /\ ~ In h (name_remove h l).
Proof.
  induction l as [|x l IH]; intros Hnd; cbn [name_remove]; [split; [constructor|intros []]|].
  inversion Hnd as [|? ? Hx Hl]; subst.
  destruct (bytes_eqb x h) eqn:E.
  - apply bytes_eqb_eq in E. subst x. split; assumption.
  - apply bytes_eqb_neq in E. destruct (IH Hl) as [H1 H2]. split.
    + constructor; [|exact H1]. intros Hin. apply Hx. eapply In_name_remove; exact Hin.
    + intros [Hin|Hin]; [congruence|contradiction].
Qed.

Lemma NoDup_pick_order hint : forall rem, NoDup rem -> NoDup (pick_order hint rem).
Proof.
  induction hint as [|h r IH]; intros rem Hnd; cbn [pick_order]; [exact Hnd|].
  destruct (name_mem h rem); [|now apply IH].
  destruct (NoDup_name_remove h rem Hnd) as [H1 H2].
  constructor; [|now apply IH]. intros Hin. apply H2. eapply In_pick_order; exact Hin.
Qed.

Lemma NoDup_empty_names qs : nodup_names qs -> NoDup (empty_names qs).
Proof.
  unfold nodup_names, empty_names. induction qs as [|[n q] qs IH]; cbn [map fst filter]; intros Hnd.
  - constructor.
  - inversion Hnd as [|? ? Hn Hl]; subst. destruct (mq_is_empty q); cbn [map fst]; [|now apply IH].
    constructor; [|now apply IH]. intros Hin. apply Hn.
    apply in_map_iff in Hin. destruct Hin as (x & Ex & Hx). apply filter_In in Hx.
    apply in_map_iff. exists x. split; [exact Ex|apply Hx].
Qed.

(* the position entries record_positions logs *)
Lemma rp_log_extra names : forall st,
  NoDup names -> names_empty (s_qs st) names ->
  NoDup (map entry_queue (map snd (rp_log P st names))) /\
  Forall (fun e => In (entry_queue e) names /\
                   exists q p, e = EPosition q p /\ s_get (abs_qs (s_qs st)) q = Some ([], p))
         (map snd (rp_log P st names)).
Proof.
  induction names as [|n r IH]; intros st Hnd Hne; cbn [rp_log]; [split; constructor|].
  inversion Hnd as [|? ? Hn Hr]; subst.
  assert (Hne' : names_empty (s_qs st) r) by (intros n' q' Hin; apply Hne; now right).
  destruct (qs_get (s_qs st) n) as [q|] eqn:Eq.
  - cbn [map snd entry_queue].
    assert (Hrest : forall X : glog,
              NoDup (map entry_queue (map snd X)) /\
              Forall (fun e => In (entry_queue e) r /\
                   exists q p, e = EPosition q p /\ s_get (abs_qs (s_qs st)) q = Some ([], p))
                (map snd X) ->
              NoDup (n :: map entry_queue (map snd X)) /\
              Forall (fun e => In (entry_queue e) (n :: r) /\
                   exists q p, e = EPosition q p /\ s_get (abs_qs (s_qs st)) q = Some ([], p))
                (EPosition n (next_position q) :: map snd X)).
    { intros X [HX1 HX2]. split.
      - constructor; [|exact HX1]. intros Hin. apply Hn.
        apply in_map_iff in Hin. destruct Hin as (e & Ee & He).
        rewrite Forall_forall in HX2. destruct (HX2 e He) as [Hi _]. now rewrite Ee in Hi.
      - constructor.
        + cbn [entry_queue]. split; [now left|]. exists n, (next_position q). split; [reflexivity|].
          rewrite abs_get, Eq. unfold abs_q.
          pose proof (Hne n q (or_introl eq_refl) Eq) as Hem. unfold mq_is_empty in Hem.
          apply isnil_true in Hem. rewrite Hem. reflexivity.
        + eapply Forall_impl; [|exact HX2]. intros e [Hi He]. split; [now right|exact He]. }
    destruct (write_entry P st (EPosition n (next_position q))) as [st1 [k|e]] eqn:Ew.
    + apply Hrest. pose proof (write_entry_qs P _ _ _ _ Ew) as Eqs. rewrite <- Eqs.
      apply IH; [exact Hr|]. now rewrite Eqs.
    + apply (Hrest []). split; constructor.
  - destruct (IH st Hr Hne') as [H1 H2]. split; [exact H1|].
    eapply Forall_impl; [|exact H2]. intros e [Hi He]. split; [now right|exact He].
Qed.

Lemma gc_log_pos_extra st hint :
  nodup_names (s_qs st) -> pos_extra (abs_qs (s_qs st)) (map snd (gc_log P st hint)).
Proof.
  intros Hnd. unfold gc_log. destruct (has_deletable st); [|apply pos_extra_nil].
  destruct (rp_log_extra (pick_order hint (empty_names (s_qs st))) st) as [H1 H2].
  - apply NoDup_pick_order. now apply NoDup_empty_names.
  - now apply pick_order_names_empty.
  - split; [exact H1|]. eapply Forall_impl; [|exact H2]. intros e [_ He]. exact He.
Qed.

(* the GC never fails under the invariant and the bound *)
Lemma gc_no_err st G hint st' r :
  Inv st G -> stream_bound G (map snd (gc_log P st hint)) ->
  run_gc_if_necessary P st hint = (st', r) -> exists n, r = Ok n.
Proof.
  intros HI Hb Hgc. unfold run_gc_if_necessary in Hgc. unfold gc_log in Hb.
  destruct (has_deletable st) eqn:Hd.
  2:{ inversion Hgc; subst. now exists 0. }
  set (names := pick_order hint (empty_names (s_qs st))) in *.
  unfold record_empty_queues_position in Hgc. fold names in Hgc.
  destruct (record_positions P st names 0) as [st0 r0] eqn:Erp.
  pose proof HI as (HP & HL).
  assert (Hne : names_empty (s_qs st) names).
  { apply pick_order_names_empty. exact (LInv_nodup _ _ _ HL). }
  destruct (HW inv_record_positions names st G 0 st0 r0 HI Hne Hb Erp)
    as ((k & ->) & _ & _ & _ & _ & HI0 & _).
  rewrite HGC in Hgc. cbn [andb] in Hgc.
  set (st1 := persist st0 true) in *.
  assert (HI1 : Inv st1 (gh_app G (rp_log P st names))) by (apply inv_persist; exact HI0).
  destruct HI1 as ((Hw1 & Hwd1 & _) & _).
  destruct (gc_loop (w_ctx (s_wr st1)) (w_files (s_wr st1)) (referenced st1 (w_file (s_wr st))))
    as [[c files'] rg] eqn:Egc.
  pose proof Hw1 as (Hok1 & _ & _ & _ & Hu1 & _). destruct Hwd1 as [_ Hdir1].
  pose proof (gc_loop_no_err _ _ _ _ _ Egc Hok1 (Hdir1 Hu1) Hu1) as ->.
  inversion Hgc; subst. now exists k.
Qed.

(* ====================================================================== *)
(* 4. reopening                                                           *)
(* ====================================================================== *)

(* the bound a restart needs: whatever position entries (for distinct empty queues) the
   recovery-time GC writes, the stream stays below 2^64 files *)
Definition reopen_bound (st : state) (G : ghost) : Prop :=
  forall extra, pos_extra (abs_qs (s_qs st)) extra -> stream_bound G extra.

Theorem inv_reopen st G :
  Inv st G -> reopen_bound st G ->
  forall pol hint, exists st' G',
    open P (c_fs (drop_log st)) None pol hint = OpenOk st' /\ Inv st' G' /\
    (forall q, s_get (abs_qs (s_qs st')) q = s_get (abs_qs (s_qs st)) q) /\
    gh_base G' = gh_base G /\ s_pol st' = pol /\
    (* the ghost stream continues: what was ever written, plus what the recovery GC wrote *)
    (exists extra, gh_ALL G' = gh_ALL G ++ extra /\ pos_extra (abs_qs (s_qs st)) extra).
Proof.
  intros HI Hb pol hint. pose proof HI as (HP & HL).
  change (c_fs (drop_log st)) with (vfs (s_wr st)).
  set (w := s_wr st) in *.
  pose proof HP as (Hw & Hwd & Hnd & Hbase & Hc1 & Hc2 & Hs & HWf & _). cbn zeta in *.
  destruct (winv_files w Hw) as (n & Hfiles & Hfile).
  pose proof Hw as (Hok & _ & Hoff & _ & _ & Hfull & _).
  assert (Hnf : lenN (w_files w) = N.of_nat n + 1) by (rewrite Hfiles, lenN_iota; lia).
  assert (Hwpos : wpos P w = N.of_nat n * FB + w_off w).
  { unfold wpos. rewrite Hnf. f_equal. f_equal. lia. }
  rewrite Hwpos in Hc1, Hc2.
  set (lo := wlo w) in *. set (base := gh_base G) in *. set (dl := lo - base) in *.
  set (T := gh_T P G) in *.
  set (z := (dl + lenN (w_files w)) * FB - lenN T) in *.
  assert (Hfull' : forall f, In f (iota lo (S n)) ->
            exists b, fs_get (vfs w) (filename f) = Some (FFile b) /\ lenN b = FB).
  { rewrite <- Hfiles. exact Hfull. }
  assert (Hlist : list_wal_numbers (vfs w) = iota lo (S n)).
  { rewrite <- Hfiles. exact (listing_after P w Hw Hwd Hnd). }
  assert (Henc : encs_rel P 0 (map entry_ser (gh_ALL G)) T).
  { unfold T, gh_T, gh_ser. apply (H3 encs_of_rel). }
  assert (HSt : stream_of (vfs w) (iota lo (S n)) = dropN (dl * FB) (T ++ zerosN z)).
  { rewrite <- Hfiles. exact Hs. }
  assert (HlenS : lenN (T ++ zerosN z) = (lo + N.of_nat n - base + 1) * FB).
  { rewrite lenN_app, lenN_zerosN. unfold z. rewrite Hnf.
    replace (lo + N.of_nat n - base + 1) with (dl + (N.of_nat n + 1)) by lia.
    assert (lenN T <= (dl + (N.of_nat n + 1)) * FB) by lia. lia. }
  destruct (open_replays_delivered P HBS_lo HBS_hi HNB Hcrc (vfs w) lo n Hfull' base (gh_ALL G) T z
              pol hint HIO Hbase Hlist HWf Henc HSt HlenS)
    as (w0 & tags & E_pre & E_suf & HE & _ & Hsuf & Hspec & Hres).
  change (map entry_ser (gh_ALL G)) with (gh_ser G) in *.
  destruct (HW PInv_delivered w G HP) as (Edel & _). fold lo base in Edel.
  rewrite Edel in Hsuf.
  assert (HEs : E_suf = map snd (gh_E G)).
  { rewrite gh_ALL_split in HE. symmetry in HE.
    apply app_eq_len in HE; [apply HE|].
    apply (f_equal (@length bytes)) in Hsuf. unfold gh_ser_E in Hsuf.
    repeat rewrite map_length in Hsuf. repeat rewrite map_length. lia. }
  subst E_suf.
  destruct (pinv_reopen w G w0 tags n HP Hfiles Hspec) as (Hlen & Hlo & Elo & HP0).
  destruct (inv_restart_equal P st G HI tags Hlen) as (qs' & Hrep & Hqi & Hnd' & Heq).
  rewrite Hrep in Hres.
  set (st0 := mkSt w0 qs' pol).
  assert (HI0 : Inv st0 (gh_reopen G tags)).
  { split; cbn [st0 s_wr s_qs]; [exact HP0|]. rewrite Elo.
    apply (linv_reopen (s_qs st)); try assumption.
    exact (qs_wf_ext _ _ (LInv_qs_wf _ _ _ HL) Hnd' Heq). }
  assert (Hex0 : pos_extra (abs_qs (s_qs st)) (map snd (gc_log P st0 hint))).
  { apply (pos_extra_ext (abs_qs qs')); [intros q; now rewrite Heq|].
    exact (gc_log_pos_extra st0 hint Hnd'). }
  assert (Hb0 : stream_bound (gh_reopen G tags) (map snd (gc_log P st0 hint))).
  { unfold RestartWrite.stream_bound. rewrite (gh_reopen_ALL G tags Hlen).
    change (gh_base (gh_reopen G tags)) with (gh_base G). now apply Hb. }
  rewrite Hres. unfold open_finish. fold st0.
  destruct (run_gc_if_necessary P st0 hint) as [st1 r] eqn:Egc.
  destruct (gc_no_err st0 _ hint st1 r HI0 Hb0 Egc) as (k & ->).
  destruct (HG inv_gc st0 _ hint st1 k HI0 Hb0 Egc) as (G' & HI' & Eqs & Epol & Eb & Ed & Elog).
  exists st1, G'. split; [reflexivity|]. split; [exact HI'|].
  split; [intros q; rewrite Eqs; exact (Heq q)|]. split; [exact Eb|]. split; [exact Epol|].
  exists (map snd (gc_log P st0 hint)). split; [|exact Hex0].
  unfold gh_ALL at 1. rewrite Ed, Elog, map_app, app_assoc.
  fold (gh_ALL (gh_reopen G tags)). now rewrite (gh_reopen_ALL G tags Hlen).
Qed.

(* ====================================================================== *)
(* 5. the bound, in terms of the state alone (no ghost)                   *)
(* ====================================================================== *)

(* the absolute byte position of the writer in the WAL numbered from file 0 *)
Definition wabs (w : rwriter) : N := w_file w * FB + w_off w.

(* writing the entries `extra` from the writer's position stays below 2^64 files *)
Definition phys_bound (w : rwriter) (extra : list entry) : Prop :=
  cursor_after (wabs w) (map entry_ser extra) <= FB * (U64_MAX + 1).

Lemma cursor_after_shift d es : d mod B = 0 -> forall a,
  cursor_after (d + a) es = d + cursor_after a es.
Proof.
  intros Hd. induction es as [|p ps IH]; intros a.
  - now rewrite !(H2 cursor_after_nil).
  - rewrite !(H3 cursor_after_cons), (HW enc_of_shift d a p Hd), <- N.add_assoc. apply IH.
Qed.

Lemma cursor_after_between a c es : a <= c -> c <= ffp a -> cursor_after a es <= cursor_after c es.
Proof.
  intros H1 H2'. destruct es as [|p ps].
  - now rewrite !(H2 cursor_after_nil).
  - rewrite !(H3 cursor_after_cons), (HW enc_of_between_len a c p H1 H2'). lia.
Qed.

Lemma phys_stream_bound w G extra : PInv w G -> phys_bound w extra -> stream_bound G extra.
Proof.
  intros (Hw & _ & _ & Hbase & Hc1 & Hc2 & _) Hb. cbn zeta in *.
  unfold phys_bound in Hb. unfold RestartWrite.stream_bound.
  rewrite map_app, (H3 cursor_after_app). fold (gh_ser G). rewrite (HN cursor_after_0).
  fold (gh_T P G).
  pose proof Hw as (Hok & _). destruct (wr_ok_len P HB0' HNB w Hok) as (Hn & Hn1).
  set (c := (wlo w - gh_base G) * FB + wpos P w) in *.
  assert (Eabs : wabs w = gh_base G * FB + c).
  { unfold wabs, c, wpos.
    replace (w_file w) with (gh_base G + ((wlo w - gh_base G) + (lenN (w_files w) - 1))) by lia.
    lia. }
  rewrite Eabs, cursor_after_shift in Hb by apply (HN mulFB_mod).
  pose proof (cursor_after_between (lenN (gh_T P G)) c (map entry_ser extra) Hc1 Hc2). lia.
Qed.

(* the bound a restart needs, in terms of the state *)
Definition restart_bound (st : state) : Prop :=
  forall extra, pos_extra (abs_qs (s_qs st)) extra -> phys_bound (s_wr st) extra.

Lemma restart_reopen_bound st G : Inv st G -> restart_bound st -> reopen_bound st G.
Proof. intros (HP & _) Hb extra Hx. exact (phys_stream_bound _ _ _ HP (Hb extra Hx)). Qed.

(* ====================================================================== *)
(* 6. the specification respects extensional equality of maps             *)
(* ====================================================================== *)

Lemma s_step_ext m1 m2 o :
  (forall q, s_get m1 q = s_get m2 q) ->
  snd (s_step m1 o) = snd (s_step m2 o) /\
  forall q, s_get (fst (s_step m1 o)) q = s_get (fst (s_step m2 o)) q.
Proof.
  intros He. destruct (sop_queue o) as [q0|] eqn:Eo.
  - destruct (s_step_local m1 m2 o q0 (He q0) Eo) as [Hs Hg]. split; [exact Hs|].
    intros q. destruct (bytes_eqb q0 q) eqn:Eq.
    + apply bytes_eqb_eq in Eq. subst q. exact Hg.
    + apply bytes_eqb_neq in Eq.
      rewrite !s_step_other by (rewrite Eo; congruence). apply He.
  - destruct o; try discriminate. cbn [s_step fst snd]. split; [reflexivity|exact He].
Qed.

Lemma no_io_logical out : no_io out -> exists so, out_logical out = Some so.
Proof.
  intros H. destruct out; cbn [out_logical]; try (eexists; reflexivity).
  exfalso. eapply H. reflexivity.
Qed.

(* ====================================================================== *)
(* 6b. under the invariant and the bound no call reports an I/O error      *)
(* ====================================================================== *)
(* (same case analysis as RestartStep.inv_step; the writes succeed by inv_write_entry, the GC
   by gc_no_err) *)
Lemma step_no_io st G o tick :
  Inv st G -> op_wf_strict (s_qs st) o ->
  stream_bound G (map snd (step_log P st o)) ->
  no_io (snd (step P st o tick)).
Proof.
  intros HI Hop Hb. destruct (step P st o tick) as [st' out] eqn:Hstep. cbn [snd].
  pose proof HI as (HP & HL). pose proof HL as (Hqwf & _).
  pose proof (step_log_wf P st o Hqwf (op_wf_strict_wf _ _ Hop)) as Hlwf.
  destruct o as [q|q hint|q pos payloads|q p hint|a]; cbn [step step_log] in *.
  - (* ---------- create ---------- *)
    unfold create_queue in Hstep. unfold create_log in *. rewrite qs_contains_get in *.
    destruct (qs_get (s_qs st) q) as [m|] eqn:Eq.
    { inversion Hstep; subst. intros ? ?; discriminate. }
    destruct (write_entry P st (EPosition q 0)) as [st1 r1] eqn:Ew.
    cbn [map snd] in Hb. inversion Hlwf as [|? ? Hwf _]; subst. cbn [snd] in Hwf.
    assert (Hap : apply_entry (s_qs st) (w_file (s_wr st)) (EPosition q 0) =
                  Some (qs_put (s_qs st) q mq_default)).
    { cbn [apply_entry]. unfold ack_position. now rewrite Eq. }
    assert (Hwf' : qs_wf (qs_put (s_qs st) q mq_default)).
    { apply qs_wf_put; [exact Hqwf|exact Hop|]. cbn. lia. }
    destruct (HW inv_write_then st G _ [] st1 r1 _ HI Hwf Hb
                (fun F => legal_create _ _ _ q F HL Eq) Ew Hap Hwf')
      as ((k & ->) & _).
    inversion Hstep; subst st' out. intros ? ?; discriminate.
  - (* ---------- delete ---------- *)
    unfold delete_queue in Hstep. unfold delete_log in *.
    destruct (qs_get (s_qs st) q) as [m|] eqn:Eq.
    2:{ inversion Hstep; subst. intros ? ?; discriminate. }
    set (e := EDelete q (next_position m)) in *.
    destruct (write_entry P st e) as [st1 r1] eqn:Ew.
    cbn [map snd] in Hb. inversion Hlwf as [|? ? Hwf Hlwf']; subst. cbn [snd] in Hwf.
    assert (Hap : apply_entry (s_qs st) (w_file (s_wr st)) e = Some (qs_remove (s_qs st) q))
      by reflexivity.
    destruct (HW inv_write_then st G e _ st1 r1 _ HI Hwf Hb
                (fun F => legal_delete _ _ _ q m _ F HL Eq) Ew Hap (qs_wf_remove _ q Hqwf))
      as ((k & ->) & Eqs & Epol & HI1 & Hb1).
    rewrite Eqs in *.
    set (st2 := set_qs st1 (qs_remove (s_qs st) q)) in *.
    destruct (run_gc_if_necessary P st2 hint) as [st3 r3] eqn:Egc.
    destruct (gc_no_err st2 _ hint st3 r3 HI1 Hb1 Egc) as (k3 & ->).
    inversion Hstep; subst st' out. intros ? ?; discriminate.
  - (* ---------- append ---------- *)
    unfold append_records in Hstep. rewrite append_log_target in *.
    destruct (qs_get (s_qs st) q) as [m|] eqn:Eq.
    2:{ inversion Hstep; subst. intros ? ?; discriminate. }
    destruct (match pos with
              | Some p => if p + 1 =? next_position m then Some (OutAppend None 0)
                          else if p <? next_position m then Some OutPast else None
              | None => None end) as [o|] eqn:Ee.
    { inversion Hstep; subst. intros e0 H. rewrite H in Ee.
      destruct pos as [p0|]; [|discriminate].
      destruct (p0 + 1 =? next_position m); [discriminate|].
      destruct (p0 <? next_position m); discriminate. }
    rewrite (append_early_target _ _ Ee) in *.
    pose proof (append_target_ge _ _ _ (append_early_target _ _ Ee)) as Hge.
    set (position := match pos with Some p => p | None => next_position m end) in *.
    destruct payloads as [|x r].
    { cbn [number_from] in Hstep. inversion Hstep; subst. intros ? ?; discriminate. }
    set (payloads := x :: r) in *.
    assert (Hpne : payloads <> []) by discriminate.
    set (recs := number_from position payloads) in *.
    set (e := EAppend q position recs) in *.
    assert (Hrne : recs <> []).
    { intros H. apply number_from_nil_iff in H. contradiction. }
    destruct (append_all_some payloads m (w_file (s_wr st)) position Hge) as (m' & Em).
    fold recs in Em.
    assert (Hstep' : match write_entry P st e with
                     | (st1, Err e0) => (st1, OutIo e0)
                     | (st1, Ok n) =>
                         (set_qs (persist_on_policy st1 tick)
                                 (qs_put (s_qs (persist_on_policy st1 tick)) q m'),
                          OutAppend (Some (last_pos_of position recs)) n)
                     end = (st', out)).
    { rewrite <- Hstep. unfold recs, payloads. cbn [number_from]. fold payloads. fold recs.
      fold e. destruct (write_entry P st e) as [st1 [n|e0]]; [|reflexivity].
      unfold recs, payloads in Em. cbn [number_from] in Em. now rewrite Em. }
    clear Hstep.
    destruct (write_entry P st e) as [st1 r1] eqn:Ew.
    change (map snd [(w_file (s_wr st), e)]) with [e] in Hb.
    inversion Hlwf as [|? ? Hwf _]; subst. cbn [snd] in Hwf.
    assert (Hap : apply_entry (s_qs st) (w_file (s_wr st)) e = Some (qs_put (s_qs st) q m')).
    { unfold e. cbn [apply_entry]. rewrite qs_contains_get, Eq, Eq, Em. reflexivity. }
    assert (Hwf' : qs_wf (qs_put (s_qs st) q m')).
    { destruct (Hqwf q m (qs_get_In_eq _ _ _ Eq)) as (Hn & _).
      apply qs_wf_put; [exact Hqwf|exact Hn|].
      rewrite (append_all_next payloads m _ position m' Hge Em). unfold payloads at 1.
      destruct Hop as (_ & Hop). unfold position. destruct pos as [p0|]; [exact Hop|].
      exact (Hop m Eq). }
    destruct (HW inv_write_then st G e [] st1 r1 _ HI Hwf Hb
                (fun F => legal_append _ _ _ q m position payloads F HL Eq Hge Hpne) Ew Hap Hwf')
      as ((k & ->) & _).
    inversion Hstep'; subst st' out. intros ? ?; discriminate.
  - (* ---------- truncate ---------- *)
    unfold truncate in Hstep. unfold truncate_log in *.
    destruct (qs_get (s_qs st) q) as [m|] eqn:Eq.
    2:{ inversion Hstep; subst. intros ? ?; discriminate. }
    set (e := ETruncate q p) in *.
    destruct (write_entry P st e) as [st1 r1] eqn:Ew.
    cbn [map snd] in Hb. inversion Hlwf as [|? ? Hwf Hlwf']; subst. cbn [snd] in Hwf.
    destruct (truncate_head m p) as [m' evicted] eqn:Et. cbn [fst] in *.
    assert (Hap : apply_entry (s_qs st) (w_file (s_wr st)) e = Some (qs_put (s_qs st) q m')).
    { unfold e. cbn [apply_entry]. now rewrite Eq, Et. }
    assert (Hwf' : qs_wf (qs_put (s_qs st) q m')).
    { destruct (Hqwf q m (qs_get_In_eq _ _ _ Eq)) as (Hn & Hnx).
      apply qs_wf_put; [exact Hqwf|exact Hn|].
      pose proof (truncate_head_next m p) as Hth. rewrite Et in Hth. cbn [fst] in Hth.
      cbn [op_wf_strict] in Hop. destruct Hth as [-> | ->]; lia. }
    destruct (HW inv_write_then st G e _ st1 r1 _ HI Hwf Hb
                (fun F => legal_truncate _ _ _ q m _ F HL Eq) Ew Hap Hwf')
      as ((k & ->) & Eqs & Epol & HI1 & Hb1).
    rewrite Eqs in *.
    set (st2 := set_qs st1 (qs_put (s_qs st) q m')) in *.
    destruct (run_gc_if_necessary P st2 hint) as [st3 r3] eqn:Egc.
    destruct (gc_no_err st2 _ hint st3 r3 HI1 Hb1 Egc) as (k3 & ->).
    inversion Hstep; subst st' out. intros ? ?; discriminate.
  - (* ---------- persist ---------- *)
    inversion Hstep; subst st' out. intros ? ?; discriminate.
Qed.

(* ====================================================================== *)
(* 7. histories with restarts                                             *)
(* ====================================================================== *)

Inductive hop :=
| HCall (o : op) (tick : bool)
| HRestart (pol : policy) (hint : list bytes).

(* a clean restart: drop the log (flushing the buffer), open the directory it leaves *)
Definition restart (st : state) (pol : policy) (hint : list bytes) : open_result :=
  open P (c_fs (drop_log st)) None pol hint.

Fixpoint hrun (st : state) (h : list hop) : option (state * list outcome) :=
  match h with
  | [] => Some (st, [])
  | HCall o tick :: r =>
      let '(st1, out) := step P st o tick in
      match hrun st1 r with
      | Some (st2, outs) => Some (st2, out :: outs)
      | None => None
      end
  | HRestart pol hint :: r =>
      match restart st pol hint with
      | OpenOk st' => hrun st' r
      | _ => None
      end
  end.

(* the calls of a history *)
Fixpoint hcalls (h : list hop) : list op :=
  match h with
  | [] => []
  | HCall o _ :: r => o :: hcalls r
  | HRestart _ _ :: r => hcalls r
  end.

(* the hypotheses on a history, along its run (like GhostLog.hist_wf): every call has
   well-formed arguments and keeps the stream below 2^64 files; every restart happens in a
   state where the recovery GC has room for its position entries.  (No hypothesis on I/O errors:
   the model injects faults only through an explicit fault plan, open P _ None starts without
   one, and step_no_io shows that no call reports an error then.) *)
Fixpoint hist_ok (st : state) (h : list hop) : Prop :=
  match h with
  | [] => True
  | HCall o tick :: r =>
      op_wf_strict (s_qs st) o /\
      phys_bound (s_wr st) (map snd (step_log P st o)) /\
      hist_ok (fst (step P st o tick)) r
  | HRestart pol hint :: r =>
      restart_bound st /\
      match restart st pol hint with
      | OpenOk st' => hist_ok st' r
      | _ => True
      end
  end.

Theorem hrun_inv h : forall st G,
  Inv st G -> hist_ok st h ->
  exists st' outs G',
    hrun st h = Some (st', outs) /\ Inv st' G' /\ gh_base G' = gh_base G /\
    Forall no_io outs /\
    forall m, (forall q, s_get m q = s_get (abs_qs (s_qs st)) q) ->
      exists m' souts,
        s_run m (map sop_of (hcalls h)) = (m', souts) /\
        (forall q, s_get m' q = s_get (abs_qs (s_qs st')) q) /\
        map out_logical outs = map Some souts.
Proof.
  induction h as [|[o tick|pol hint] h IH]; intros st G HI Hok.
  - exists st, [], G. split; [reflexivity|]. split; [exact HI|]. split; [reflexivity|].
    split; [constructor|]. intros m Hm. exists m, []. cbn [hcalls map s_run]. auto.
  - cbn [hist_ok] in Hok. destruct Hok as (Hop & Hb & Hok).
    cbn [hrun hcalls map].
    pose proof (step_no_io st G o tick HI Hop (phys_stream_bound _ _ _ (proj1 HI) Hb)) as Hno.
    pose proof (step_refines P st o tick (Inv_qs_inv P st G HI)) as Href.
    destruct (step P st o tick) as [st1 out] eqn:Es. cbn [fst snd] in *.
    destruct Href as (_ & Href).
    destruct (HG inv_step st G o tick st1 out HI Hop
                (phys_stream_bound _ _ _ (proj1 HI) Hb) Es Hno) as (G1 & HI1 & Eb1 & _).
    destruct (IH st1 G1 HI1 Hok) as (st2 & outs & G2 & Er & HI2 & Eb2 & Hno2 & Hspec).
    exists st2, (out :: outs), G2. rewrite Er.
    split; [reflexivity|]. split; [exact HI2|]. split; [congruence|].
    split; [constructor; assumption|].
    intros m Hm. destruct (no_io_logical out Hno) as (so & Eso).
    specialize (Href so Eso).
    destruct (s_step_ext m (abs_qs (s_qs st)) (sop_of o) Hm) as (Hs1 & Hs2).
    rewrite Href in Hs1, Hs2. cbn [fst snd] in Hs1, Hs2.
    destruct (s_step m (sop_of o)) as [m1 so1] eqn:Em. cbn [fst snd] in Hs1, Hs2. subst so1.
    destruct (Hspec m1 Hs2) as (m' & souts & Erun & Hm' & Hl).
    exists m', (so :: souts). cbn [s_run]. rewrite Em, Erun. split; [reflexivity|]. split; [exact Hm'|].
    cbn [map]. now rewrite Eso, Hl.
  - cbn [hist_ok] in Hok. destruct Hok as (Hb & Hok).
    cbn [hrun hcalls]. unfold restart in *.
    destruct (inv_reopen st G HI (restart_reopen_bound st G HI Hb) pol hint)
      as (st1 & G1 & Eo & HI1 & Heq & Eb1 & _).
    rewrite Eo in *.
    destruct (IH st1 G1 HI1 Hok) as (st2 & outs & G2 & Er & HI2 & Eb2 & Hno2 & Hspec).
    exists st2, outs, G2. split; [exact Er|]. split; [exact HI2|]. split; [congruence|].
    split; [exact Hno2|].
    intros m Hm. apply Hspec. intros q. now rewrite Hm, Heq.
Qed.

(* in particular: the restarts are the identity on the abstract state; the final abstract state
   and the logical outcomes are those of the specification run over the calls only *)
Corollary hrun_spec h st G :
  Inv st G -> hist_ok st h ->
  exists st' outs m' souts,
    hrun st h = Some (st', outs) /\
    s_run (abs_qs (s_qs st)) (map sop_of (hcalls h)) = (m', souts) /\
    (forall q, s_get m' q = s_get (abs_qs (s_qs st')) q) /\
    map out_logical outs = map Some souts.
Proof.
  intros HI Hok. destruct (hrun_inv h st G HI Hok) as (st' & outs & G' & Er & _ & _ & _ & Hspec).
  destruct (Hspec (abs_qs (s_qs st)) (fun q => eq_refl)) as (m' & souts & Erun & Hm & Hl).
  exists st', outs, m', souts. auto.
Qed.

(* ====================================================================== *)
(* 8. THE THEOREM                                                         *)
(* ====================================================================== *)

(* the read API only sees the abstract content *)
Lemma reads_ext st1 st2 :
  qs_inv (s_qs st1) -> qs_inv (s_qs st2) ->
  (forall q, s_get (abs_qs (s_qs st1)) q = s_get (abs_qs (s_qs st2)) q) ->
  (forall q lo hi, log_range st1 q lo hi = log_range st2 q lo hi) /\
  (forall q, log_last_position st1 q = log_last_position st2 q) /\
  (forall q, log_last_record st1 q = log_last_record st2 q).
Proof.
  intros H1 H2' He. split; [|split].
  - intros q lo hi. rewrite !log_range_refines by assumption. unfold s_range. now rewrite He.
  - intros q. rewrite !log_last_position_refines. unfold s_last_position. now rewrite He.
  - intros q. rewrite !log_last_record_refines by assumption. unfold s_last_record. now rewrite He.
Qed.

(* Every history of calls and clean restarts from a fresh directory (well-formed arguments, no
   I/O error, stream below 2^64 files) ends in a state st such that one more clean restart
   reproduces st exactly, as far as the API can tell: the same queues, the same retained records
   (same positions, same payload bytes, same order), the same next positions. *)
Theorem C01_restart_identity pol0 st0 h st outs :
  open P [] None pol0 [] = OpenOk st0 ->
  hrun st0 h = Some (st, outs) ->
  hist_ok st0 h ->
  restart_bound st ->
  forall pol hint, exists st',
    restart st pol hint = OpenOk st' /\
    (forall q, s_get (abs_qs (s_qs st')) q = s_get (abs_qs (s_qs st)) q) /\
    (forall q lo hi, log_range st' q lo hi = log_range st q lo hi) /\
    (forall q, log_last_position st' q = log_last_position st q) /\
    (forall q, log_last_record st' q = log_last_record st q).
Proof.
  intros Hopen Hrun Hok Hb pol hint.
  pose proof (inv_fresh P HBS_lo HBS_hi HNB pol0 st0 Hopen) as HI0.
  destruct (hrun_inv h st0 gh_fresh HI0 Hok) as (st1 & outs1 & G & Er & HI & _).
  rewrite Hrun in Er. injection Er as <- <-.
  destruct (inv_reopen st G HI (restart_reopen_bound st G HI Hb) pol hint)
    as (st' & G' & Eo & HI' & Heq & _).
  exists st'. split; [exact Eo|]. split; [exact Heq|].
  exact (reads_ext st' st (Inv_qs_inv P st' G' HI') (Inv_qs_inv P st G HI) Heq).
Qed.

(* ... and that state is the one the sequential specification computes from the CALLS of the
   history alone: the restarts in between are invisible *)
Theorem C01_history_spec pol0 st0 h :
  open P [] None pol0 [] = OpenOk st0 ->
  hist_ok st0 h ->
  exists st outs m souts,
    hrun st0 h = Some (st, outs) /\
    s_run [] (map sop_of (hcalls h)) = (m, souts) /\
    (forall q, s_get m q = s_get (abs_qs (s_qs st)) q) /\
    map out_logical outs = map Some souts.
Proof.
  intros Hopen Hok.
  pose proof (inv_fresh P HBS_lo HBS_hi HNB pol0 st0 Hopen) as HI0.
  destruct (hrun_inv h st0 gh_fresh HI0 Hok) as (st & outs & G & Er & _ & _ & _ & Hspec).
  destruct (open_fresh P HBS_lo HBS_hi HNB pol0) as (c & _ & Eo). rewrite Eo in Hopen.
  injection Hopen as <-. cbn [s_qs abs_qs map] in Hspec.
  destruct (Hspec [] (fun q => eq_refl)) as (m & souts & Erun & Hm & Hl).
  exists st, outs, m, souts. auto.
Qed.

(* ====================================================================== *)
(* 9. discharging the hypotheses on concrete histories                    *)
(* ====================================================================== *)

Lemma hist_ok_call st o t r s1 o1 :
  step P st o t = (s1, o1) ->
  op_wf_strict (s_qs st) o -> phys_bound (s_wr st) (map snd (step_log P st o)) ->
  hist_ok s1 r -> hist_ok st (HCall o t :: r).
Proof. intros E H1 H2' H4. cbn [hist_ok]. rewrite E. cbn [fst snd]. auto. Qed.

Lemma hist_ok_restart st pol hint r s1 :
  restart st pol hint = OpenOk s1 -> restart_bound st -> hist_ok s1 r ->
  hist_ok st (HRestart pol hint :: r).
Proof. intros E H1 H2'. cbn [hist_ok]. rewrite E. auto. Qed.

(* the empty queues of an abstract state, with their next positions *)
Definition s_empties (m : smap) : list (bytes * N) :=
  flat_map (fun x => if isnil (fst (snd x)) then [(fst x, snd (snd x))] else []) m.

Lemma s_get_empties m q p : s_get m q = Some ([], p) -> In (q, p) (s_empties m).
Proof.
  induction m as [|[n [recs nx]] m IH]; cbn [s_get]; [discriminate|].
  unfold s_empties. cbn [flat_map fst snd]. fold (s_empties m).
  destruct (bytes_eqb n q) eqn:E.
  - apply bytes_eqb_eq in E. subst n. intros H. injection H as -> ->. cbn [isnil]. now left.
  - intros H. apply in_or_app. right. now apply IH.
Qed.

(* at most one empty queue: the recovery GC writes at most one position entry *)
Lemma restart_bound_le1 st q0 p0 :
  (forall x, In x (s_empties (abs_qs (s_qs st))) -> x = (q0, p0)) ->
  phys_bound (s_wr st) [] -> phys_bound (s_wr st) [EPosition q0 p0] ->
  restart_bound st.
Proof.
  intros Hone Hb0 Hb1 extra [Hnd Hall].
  assert (Hel : forall e, In e extra -> e = EPosition q0 p0).
  { intros e He. rewrite Forall_forall in Hall. destruct (Hall e He) as (q & p & -> & Hg).
    apply s_get_empties in Hg. apply Hone in Hg. now injection Hg as -> ->. }
  destruct extra as [|e1 [|e2 r]]; [exact Hb0| |exfalso].
  - rewrite (Hel e1 (or_introl eq_refl)). exact Hb1.
  - rewrite (Hel e1 (or_introl eq_refl)), (Hel e2 (or_intror (or_introl eq_refl))) in Hnd.
    cbn [map entry_queue] in Hnd. inversion Hnd as [|? ? Hn _]. apply Hn. now left.
Qed.
End Final.

Print Assumptions inv_reopen.
Print Assumptions hrun_inv.
Print Assumptions hrun_spec.
Print Assumptions step_no_io.
Print Assumptions C01_restart_identity.
Print Assumptions C01_history_spec.

(* ====================================================================== *)
(* 10. non-vacuity: a concrete history with roll-overs, GC passes and restarts *)
(* ====================================================================== *)
(* BS = 32, two blocks per file (files of 64 bytes).  Two queues; the appends roll over to
   files 1, 2, 3; the first restart finds the writer 6 bytes before a block end (the reader
   skips them: FileStream.norm_off); the truncates delete files 0-1, then 2-3 (each GC pass first
   re-records the position of the empty queue b); after a restart the association list of the
   queues is ordered differently (b before a), which is why the theorem speaks of s_get. *)
Module Example.
Import ListNotations.
Definition Px : params := mkParams 32 2 (fun _ _ => 5) 0 false false false.
Definition qa : bytes := ["a"%byte].
Definition qb : bytes := ["b"%byte].
Definition pay (c : byte) : bytes := [c; c; c; c; c; c; c; c; c; c].

Definition h_ex : list hop :=
  [HCall (OCreate qa) false;
   HCall (OAppend qa None [pay "x"%byte; pay "y"%byte]) false;
   HCall (OAppend qa None [pay "z"%byte]) true;
   HCall (OCreate qb) false;
   HCall (OAppend qa (Some 5) [pay "u"%byte]) false;
   HRestart (PDelay true) [];
   HCall (OTruncate qa 2 [qb]) false;
   HCall (OAppend qa None [pay "v"%byte]) false;
   HRestart PNothing [qb];
   HCall (OTruncate qa 5 []) true;
   HRestart PNothing [qb];
   HCall (OAppend qb None [pay "w"%byte]) true].

Lemma Px_BS_lo : 7 < BS Px. Proof. reflexivity. Qed.
Lemma Px_BS_hi : BS Px <= 65542. Proof. intros H; discriminate H. Qed.
Lemma Px_NB : 1 <= NB Px. Proof. intros H; discriminate H. Qed.
Lemma Px_crc : forall t p, crcf Px t p < 2 ^ 32. Proof. intros t p. reflexivity. Qed.

Definition st_dummy : state := mkSt (mkWr (ctx_init [] None) [] 0 0 []) [] PNothing.
Definition st0 : state :=
  Eval vm_compute in match open Px [] None PNothing [] with OpenOk s => s | _ => st_dummy end.
Lemma open_st0 : open Px [] None PNothing [] = OpenOk st0.
Proof. vm_compute. reflexivity. Qed.

Definition st_ex : state :=
  Eval vm_compute in match hrun Px st0 h_ex with Some (s, _) => s | None => st_dummy end.
Definition outs_ex : list outcome :=
  Eval vm_compute in match hrun Px st0 h_ex with Some (_, o) => o | None => [] end.
Lemma hrun_ex : hrun Px st0 h_ex = Some (st_ex, outs_ex).
Proof. vm_compute. reflexivity. Qed.

(* what happened on the way: the files and the writer position after each prefix of the history *)
Example trace_ex :
  map (fun k => match hrun Px st0 (firstn k h_ex) with
                | Some (s, _) => Some (w_files (s_wr s), w_off (s_wr s), map fst (s_qs s))
                | None => None end) [5; 6; 7; 9; 10; 11; 12]%nat =
  [Some ([0; 1; 2; 3], 26, [qa; qb]);      (* three roll-overs *)
   Some ([0; 1; 2; 3], 32, [qa; qb]);      (* restart: the offset is normalised *)
   Some ([2; 3; 4], 13, [qa; qb]);         (* truncate: GC deletes files 0 and 1 *)
   Some ([2; 3; 4], 61, [qb; qa]);         (* restart: same content, another order *)
   Some ([4; 5], 45, [qb; qa]);            (* truncate: GC deletes files 2 and 3 *)
   Some ([4; 5], 45, [qa; qb]);            (* restart *)
   Some ([4; 5; 6], 29, [qa; qb])].
Proof. vm_compute. reflexivity. Qed.

Ltac wf_tac :=
  cbn [op_wf_strict];
  repeat match goal with
         | |- _ /\ _ => split
         | |- Forall _ _ => repeat constructor
         | |- name_ok _ => split; vm_compute; reflexivity
         | |- forall m, qs_get _ _ = Some m -> _ =>
             let m := fresh "m" in let H := fresh "H" in
             intros m H; vm_compute in H; injection H as <-; vm_compute; reflexivity
         | |- _ < _ => vm_compute; reflexivity
         | |- True => exact I
         end.
Ltac bound_tac := unfold phys_bound; vm_compute; let H := fresh in intro H; discriminate H.
Ltac call_tac := eapply hist_ok_call; [vm_compute; reflexivity | wf_tac | bound_tac | ].
Ltac restart_tac q p :=
  eapply hist_ok_restart;
  [ vm_compute; reflexivity
  | apply (restart_bound_le1 Px _ q p);
    [ let x := fresh in let H := fresh in
      intros x H; vm_compute in H; repeat (destruct H as [H|H]; [now rewrite <- H|]); destruct H
    | bound_tac | bound_tac ]
  | ].

(* the hypotheses of the theorem hold along this history *)
Lemma hist_ok_ex : hist_ok Px st0 h_ex.
Proof.
  unfold h_ex.
  call_tac. call_tac. call_tac. call_tac. call_tac.
  restart_tac qb 0.
  call_tac. call_tac.
  restart_tac qb 0.
  call_tac.
  restart_tac qb 0.
  call_tac.
  exact I.
Qed.

Lemma restart_bound_ex : restart_bound Px st_ex.
Proof.
  apply (restart_bound_le1 Px _ qb 0); [intros x H; vm_compute in H; destruct H | bound_tac | bound_tac].
Qed.

(* the theorem, on this instance *)
Example C01_ex : forall pol hint, exists st',
  restart Px st_ex pol hint = OpenOk st' /\
  (forall q, s_get (abs_qs (s_qs st')) q = s_get (abs_qs (s_qs st_ex)) q) /\
  (forall q lo hi, log_range st' q lo hi = log_range st_ex q lo hi) /\
  (forall q, log_last_position st' q = log_last_position st_ex q) /\
  (forall q, log_last_record st' q = log_last_record st_ex q).
Proof.
  exact (C01_restart_identity Px Px_BS_lo Px_BS_hi Px_NB Px_crc eq_refl eq_refl
           PNothing st0 h_ex st_ex outs_ex open_st0 hrun_ex hist_ok_ex restart_bound_ex).
Qed.

(* ... and by direct computation: the final restart reproduces the queues (here even as the
   same association list) and every outcome of the history is the specification's *)
Example C01_ex_computed :
  match restart Px st_ex PNothing [] with
  | OpenOk st' => abs_qs (s_qs st') = abs_qs (s_qs st_ex)
  | _ => False
  end /\
  abs_qs (s_qs st_ex) = [(qa, ([(6, pay "v"%byte)], 7)); (qb, ([(0, pay "w"%byte)], 1))] /\
  s_run [] (map sop_of (hcalls h_ex)) =
    (abs_qs (s_qs st_ex),
     [SOk; SAppended (Some 1); SAppended (Some 2); SOk; SAppended (Some 5); STruncated 3;
      SAppended (Some 6); STruncated 1; SAppended (Some 0)]) /\
  map out_logical outs_ex =
    map Some [SOk; SAppended (Some 1); SAppended (Some 2); SOk; SAppended (Some 5); STruncated 3;
              SAppended (Some 6); STruncated 1; SAppended (Some 0)].
Proof. vm_compute. repeat split; reflexivity. Qed.
End Example.

Print Assumptions Example.C01_ex.
