(* JRecoverSelf.v — TASK T14, stage 3b: a crash that cuts the effects of the recovery itself.
   img is a crash image of a (virtual) call issued from a state satisfying the junk-tolerant
   invariant; st_r = open img.  The events that `open` appended to the I/O trace are the reading
   phase (quiet events and possibly the set_len of a short last file) followed by the events of
   the recovery-time GC (position entries, flush, syncs, unlinks).  Every crash image of these
   events, applied to img, is again recovered to the abstract state of st_r. *)
From Coq Require Import Lia ZArith ZifyN ZifyNat ZifyBool List Sorted.
From MRL Require Import Bytes BytesProofs Params Names NamesProofs Frame Record Mem Spec Rolling Log
  Driver Hist NoopProofs SpecRefine RecordProofs StreamProofs PolicyProofs GcProofs GhostLog ReplaySpec
  HandleProofs FileStream ResyncProofs QueueIso RestartInv RestartWrite RestartGc RestartStep
  OpenReplay RestartFinal TornProofs TornFile CrashTrace CrashAtomic
  JInv JGc JStep JunkStream JReopen JRecoverL JRecoverS JRecoverP JRecover JRecoverS2 JRecoverL2
  JCrashShape JRecover2 JRecoverP2 JRecoverPk JRecover3 JRecoverGc.

Arguments N.add : simpl never.
Arguments N.sub : simpl never.
Arguments N.mul : simpl never.
Arguments N.eqb : simpl never.
Arguments N.ltb : simpl never.
Arguments N.leb : simpl never.
Arguments N.div : simpl never.
Arguments N.modulo : simpl never.
Arguments N.min : simpl never.
Arguments N.max : simpl never.
Arguments N.pow : simpl never.

Section RecoverSelf.
Variable P : params.
Hypothesis HBS_lo : 7 < BS P.
Hypothesis HBS_hi : BS P <= 65542.
Hypothesis HNB : 1 <= NB P.
Hypothesis Hcrc : forall t p, crcf P t p < 2 ^ 32.
Hypothesis HGC : L_GC P = false.
Hypothesis HIO : L_IO P = false.
Hypothesis HSHORT : L_SHORT P = false.
Hypothesis Hnc : no_zero_collision P.

Local Notation B := (BS P).
Local Notation FB := (FILE_BYTES P).
Local Notation ffp := (first_frame_pos P).
Local Notation encs_of := (encs_of P).
Local Notation cursor_after := (cursor_after P).
Local Notation ser := (map entry_ser).
Local Notation H3 f := (f P HBS_lo HBS_hi Hcrc) (only parsing).
Local Notation H2 f := (f P HBS_lo HBS_hi) (only parsing).
Local Notation HW f := (f P HBS_lo HBS_hi HNB Hcrc) (only parsing).
Local Notation HN f := (f P HBS_lo HBS_hi HNB) (only parsing).

(* room for the position entries of a GC started (again) from the recovered state, or from
   any earlier cursor *)
Definition rec_bound (st_r : state) : Prop :=
  forall c extra, pos_extra (abs_qs (s_qs st_r)) extra ->
    c <= wabs P (s_wr st_r) + B -> cursor_after c (ser extra) <= FB * (U64_MAX + 1).

(* the package established by a recovery *)
Definition recovered (st_r : state) : Prop :=
  exists PRE OLD opos adm cmax rm G_r,
    pre_ok PRE OLD opos /\ pre_cont P PRE (ser OLD) opos adm cmax rm /\ rm <= 7 /\
    (forall m, adm (m * NB P)) /\
    InvJ P PRE OLD opos st_r G_r /\
    lenN PRE + rm <= (w_file (s_wr st_r) + 1 - gh_base G_r) * FB.

Theorem recover_self PRE OLD opos adm cmax rm img lo' n base zz qs_log lo_log Glog pol hint st_r :
  pre_ok PRE OLD opos -> pre_cont P PRE (ser OLD) opos adm cmax rm -> rm <= 7 ->
  (forall m, adm (m * NB P)) ->
  rc_hyps P PRE OLD opos adm rm img lo' n base zz qs_log lo_log Glog ->
  open P img None pol hint = OpenOk st_r ->
  (* the recovery-time GC does not roll over and ends before the last block of its file *)
  w_file (s_wr st_r) = lo' + N.of_nat n -> w_off (s_wr st_r) + B <= FB -> rec_bound st_r ->
  (forall q, s_get (abs_qs (s_qs st_r)) q = s_get (abs_qs qs_log) q) /\ recovered st_r /\
  forall pe2, cpre pe2 (rev (c_ev (w_ctx (s_wr st_r)))) -> forall pol3 hint3,
    exists st_r2,
      open P (fold_left apply_event pe2 img) None pol3 hint3 = OpenOk st_r2 /\
      (forall q, s_get (abs_qs (s_qs st_r2)) q = s_get (abs_qs (s_qs st_r)) q) /\
      recovered st_r2 /\ s_pol st_r2 = pol3 /\ w_pending (s_wr st_r2) = [].
Proof.
  intros Hpre Hpc Hrm Hadm Hrc Hopen Hroll Hblk Hrb.
  pose proof (pre_reads_of_cont P HBS_lo HBS_hi Hcrc PRE (ser OLD) opos adm cmax rm Hpc) as Hrd.
  destruct (recover_core_x_pk P HBS_lo HBS_hi HNB Hcrc HGC HIO HSHORT PRE OLD opos adm cmax rm
              img lo' n base zz qs_log lo_log Glog pol hint Hpre Hrd Hrc)
    as (w0 & qs0 & G0 & A & k & st_r' & G_r & HI0 & Eb0 & Hp0 & Hwf0 & Elo0 & EjN0 & Hpf0 & Habs0 &
        HevA & Hfs0 & HfoldA & HtwoA & Hgc & Hopen' & HIr & Habsr & Ebr & Hfr & Hpolr & Hpendr).
  cbv zeta in *. rewrite Hopen in Hopen'. injection Hopen' as <-.
  pose proof Hrc as (Hlistx & Hfilesx & Hbase & Hhimax & _ & _ & _ & _ & HlenS & _ & Hroom & _ & _ & _ &
                     _ & _ & Eblog & _ & _).
  cbv zeta in Hlistx, Hfilesx, Hbase, Hhimax, HlenS, Hroom.
  set (hi := lo' + N.of_nat n) in *.
  set (fsx := fs_ext P img lo' n) in *.
  set (st0 := mkSt w0 qs0 pol) in *.
  assert (Hrec_r : recovered st_r).
  { exists PRE, OLD, opos, adm, cmax, rm, G_r.
    split; [exact Hpre|]. split; [exact Hpc|]. split; [exact Hrm|]. split; [exact Hadm|].
    split; [exact HIr|]. rewrite Ebr, Eblog. rewrite HlenS in Hroom.
    assert ((hi - base + 1) * FB <= (w_file (s_wr st_r) + 1 - base) * FB)
      by (apply N.mul_le_mono_r; lia).
    lia. }
  split; [exact Habsr|]. split; [exact Hrec_r|].
  (* the GC as a virtual call from st0 *)
  set (X := map snd (gc_log P st0 hint)) in *.
  assert (Hcb0 : crash_boundJ P PRE OLD G0 X (abs_qs (s_qs st0))).
  { intros c extra Hx Hc1 Hc2.
    (* the position of the recovered writer *)
    assert (Hsb0 : forall extra0, pos_extra (abs_qs qs_log) extra0 ->
              FB * base + cursor_after (lenN PRE) (ser extra0) <= FB * (U64_MAX + 1)).
    { destruct Hrc as (_ & _ & _ & _ & _ & _ & _ & _ & _ & _ & _ & _ & _ & _ & _ & _ & _ & _ & H). exact H. }
    assert (HsbX : stream_boundJ P PRE OLD G0 X).
    { unfold JInv.stream_boundJ. rewrite EjN0. cbn [app]. rewrite Eb0, Eblog. apply Hsb0.
      apply (pos_extra_ext (abs_qs qs0)); [intros q; now rewrite Habs0|].
      exact (gc_log_pos_extra P st0 hint (InvJ_nodup P PRE OLD opos st0 G0 HI0)). }
    destruct (invJ_gc P HBS_lo HBS_hi HNB Hcrc HGC PRE OLD opos Hpre st0 G0 hint st_r k HI0 HsbX Hgc)
      as (G'' & HI'' & Eqs'' & _ & Eb'' & Ed'' & Elog'').
    assert (EALL'' : gh_ALL G'' = gh_ALL G0 ++ X).
    { unfold gh_ALL. rewrite Ed'', Elog'', map_app, app_assoc. reflexivity. }
    pose proof (jALL_split P PRE OLD opos _ G0 (proj1 HI0)) as HA0. rewrite EjN0, app_nil_r in HA0.
    assert (EjN'' : jNEW OLD G'' = X).
    { unfold JInv.jNEW. rewrite EALL'', HA0. apply skipn_app_exact. }
    destruct HI'' as ((Hw'' & _ & _ & Hbase'' & Hc1'' & Hc2'' & _) & _). cbn zeta in *.
    pose proof Hw'' as (Hok'' & _).
    destruct (wr_ok_len P (HB0c P HBS_lo HBS_hi HNB) HNB _ Hok'') as (Hn'' & Hn1'').
    set (cr := (wlo (s_wr st_r) - gh_base G'') * FB + wpos P (s_wr st_r)) in *.
    assert (Eabs : wabs P (s_wr st_r) = gh_base G'' * FB + cr).
    { unfold wabs, cr, wpos.
      replace (w_file (s_wr st_r))
        with (gh_base G'' + ((wlo (s_wr st_r) - gh_base G'') + (lenN (w_files (s_wr st_r)) - 1))) by lia.
      lia. }
    rewrite (jT_len P PRE OLD G'') in Hc1''. unfold JInv.jser in Hc1''. rewrite EjN'' in Hc1''.
    rewrite EjN0 in Hc2. cbn [app] in Hc2.
    assert (Hsh : cursor_after (gh_base G0 * FB + c) (ser extra) = gh_base G0 * FB + cursor_after c (ser extra)).
    { apply (cursor_after_shift P HBS_lo HBS_hi HNB Hcrc). apply (HN mulFB_mod). }
    assert (Hx' : pos_extra (abs_qs (s_qs st_r)) extra).
    { apply (pos_extra_ext (abs_qs (s_qs st0))); [intros q; rewrite Habsr; cbn [st0 s_qs]; now rewrite Habs0|exact Hx]. }
    pose proof (Hrb (gh_base G0 * FB + c) extra Hx') as Hb. rewrite Hsh, Eabs in Hb.
    rewrite Eb'' in Hb. lia. }
  destruct (recover_gc P HBS_lo HBS_hi HNB Hcrc HGC HIO HSHORT Hnc PRE OLD opos adm cmax rm
              Hpre Hpc Hrm Hadm st0 G0 hint st_r k HI0 Hp0 Hgc Hcb0
              ltac:(cbn [st0 s_wr]; rewrite Hwf0; exact Hroll) Hblk)
    as (evsG & HevG & HallG).
  cbn [st0 s_wr] in HevG, HallG. rewrite Hfs0 in HallG.
  assert (Erev : rev (c_ev (w_ctx (s_wr st_r))) = A ++ evsG).
  { rewrite HevG, HevA, rev_app_distr, !rev_involutive. reflexivity. }
  intros pe2 Hcp2 pol3 hint3. rewrite Erev in Hcp2.
  destruct (cpre_app_inv A pe2 evsG Hcp2) as [HcA | (pt & -> & Hcpt)].
  - (* the crash is in the reading phase: the image is img or its zero-extension *)
    assert (Hrc2 : rc_hyps P PRE OLD opos adm rm (fold_left apply_event pe2 img) lo' n base zz
                     qs_log lo_log Glog).
    { destruct (HtwoA pe2 HcA) as [-> | ->]; [exact Hrc|].
      exact (rc_hyps_ext P HBS_lo HBS_hi HNB Hcrc PRE OLD opos adm rm img lo' n base zz _ _ _ Hrc). }
    destruct (recover_core_pk P HBS_lo HBS_hi HNB Hcrc HGC HIO HSHORT PRE OLD opos adm cmax rm _ lo' n
                base zz qs_log lo_log Glog pol3 hint3 Hpre Hrd Hrc2)
      as (st_r2 & G_r2 & Hopen2 & HIr2 & Habsr2 & Ebr2 & Hfr2 & Hpolr2 & Hpendr2).
    exists st_r2. split; [exact Hopen2|]. split; [intros q; now rewrite Habsr2, Habsr|].
    split; [|split; [exact Hpolr2|exact Hpendr2]].
    exists PRE, OLD, opos, adm, cmax, rm, G_r2.
    split; [exact Hpre|]. split; [exact Hpc|]. split; [exact Hrm|]. split; [exact Hadm|].
    split; [exact HIr2|]. rewrite Ebr2, Eblog. rewrite HlenS in Hroom. fold hi in Hfr2.
    assert ((hi - base + 1) * FB <= (w_file (s_wr st_r2) + 1 - base) * FB)
      by (apply N.mul_le_mono_r; lia).
    lia.
  - (* the crash is in the GC *)
    rewrite fold_left_app, HfoldA.
    destruct (HallG pt Hcpt pol3 hint3)
      as (PRE2 & OLD2 & opos2 & adm2 & cmax2 & rm2 & st_r2 & G_r2 & Hopen2 & Hpre2 & Hpc2 & Hrm2 & Hadm2 &
          HIr2 & Hroom2 & Hpolr2 & Hpendr2 & Habs2).
    cbn zeta in Hopen2.
    exists st_r2. split; [exact Hopen2|].
    split; [intros q; rewrite Habs2, Habsr; cbn [st0 s_qs]; now rewrite Habs0|].
    split; [|split; [exact Hpolr2|exact Hpendr2]].
    exists PRE2, OLD2, opos2, adm2, cmax2, rm2, G_r2.
    split; [exact Hpre2|]. split; [exact Hpc2|]. split; [exact Hrm2|]. split; [exact Hadm2|].
    split; [exact HIr2|exact Hroom2].
Qed.

End RecoverSelf.

Print Assumptions recover_self.
