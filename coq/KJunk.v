(* KJunk.v — TASK T14 follow-up (2): junk that may be entered at an interior block boundary.
   junk_at2 = junk_at plus: a reader started at a block boundary strictly inside the junk
   (after the first-frame position of its start) walks to its end without delivering anything.
   The torn encoding of an entry is junk_at2 (KWalk.torn_walk3), and appending such junk keeps
   the admissible set of block boundaries UNCHANGED (pre_cont_junk2), so a file boundary that
   falls inside a torn entry that spans two files stays admissible. *)
From Coq Require Import Lia ZArith ZifyN ZifyNat ZifyBool List Sorted.
From MRL Require Import Bytes BytesProofs Params Frame Driver StreamProofs DamageProofs TornProofs
  ResyncProofs OpenTerm OpenReplay TornFile JunkStream KWalk.

Arguments N.add : simpl never.
Arguments N.sub : simpl never.
Arguments N.mul : simpl never.
Arguments N.eqb : simpl never.
Arguments N.ltb : simpl never.
Arguments N.leb : simpl never.
Arguments N.div : simpl never.
Arguments N.modulo : simpl never.
Arguments N.min : simpl never.
Arguments N.max : simpl never.

Section KJunk.
Variable P : params.
Hypothesis HBS_lo : 7 < BS P.
Hypothesis HBS_hi : BS P <= 65542.
Hypothesis Hcrc : forall t p, crcf P t p < 2 ^ 32.

Local Notation B := (BS P).
Local Notation rframe := (read_frame P vecr (vr_next P) vr_block).
Local Notation gonext := (go_next P vecr (vr_next P) vr_block).
Local Notation encrel := (enc_rel P).
Local Notation rdat := (rd_at P).
Local Notation atpos := (at_pos P).
Local Notation readsat := (reads_at P).
Local Notation sok := (stream_ok P).
Local Notation ffp := (first_frame_pos P).
Local Notation bpos := (bpos P).
Local Notation readsC := (reads_trc P (vr_next P) vr_block).
Local Notation H3 f := (f P HBS_lo HBS_hi Hcrc) (only parsing).
Local Notation H2 f := (f P HBS_lo HBS_hi) (only parsing).

Definition junk_at2 (a r : N) (W : bytes) : Prop :=
  junk_at P a r W /\
  forall S pre post kb rbuf,
    sok S -> S = pre ++ W ++ post -> lenN pre = a -> r + 7 <= lenN S ->
    ffp a < kb * B -> kb * B < r ->
    nr_walk P S (kb * B) r (mkRR (rdat S kb 0) rbuf false).

Theorem junk_of_torn2 a x e k j :
  no_zero_collision P ->
  encrel a true x e k -> j < lenN e -> all_zero (dropN j e) = false ->
  exists r W,
    junk_at2 a r W /\
    (forall z, r <= a + j + z -> takeN j e ++ zerosN z = W ++ zerosN (a + j + z - r)) /\
    (forall m, a + j <= m * B -> r <= m * B) /\
    (forall m, m * B <= a + j -> m * B <= r).
Proof.
  intros Hnc He Hj Hnz.
  destruct (H3 torn_walk3 a true x e k He j Hj) as (r & W & Har & HlW & Hspec & Hup & Hlo & Hrd).
  exists r, W. split; [|split; [exact Hspec|split; [exact Hup|exact Hlo]]].
  split.
  - split; [exact Har|]. split; [exact HlW|].
    intros S pre post fr rbuf within Hok Hat HS Hpre Hroom.
    destruct (Hrd S pre post Hok HS Hpre Hroom) as (HrdA & _ & _).
    destruct (HrdA fr rbuf within Hat (or_introl eq_refl)) as (n & rr1 & Hn & Hra & Hout).
    destruct Hout as [Hsil | [[Hn7 Hcor] | (Hn7 & p' & Hbuf & Hrec & Hcase)]].
    + exists n, rr1, 0%nat. split; [lia|]. split; [exact Hn|]. split; [exact Hra|].
      left. split; [reflexivity|]. intros fuel'. apply Hsil.
    + exists n, rr1, 1%nat. split; [lia|]. split; [exact Hn|]. split; [exact Hra|].
      right. split; [reflexivity|]. exact Hcor.
    + exfalso. destruct Hcase as [[_ Hz] | [_ Hcol]].
      * rewrite Hz in Hnz. discriminate.
      * exact (TornProofs.no_collision P Hnc Hcol).
  - intros S pre post kb rbuf Hok HS Hpre Hroom H1 H2'.
    destruct (Hrd S pre post Hok HS Hpre Hroom) as (_ & _ & HrdD).
    exact (HrdD kb rbuf H1 H2').
Qed.

(* appending a junk segment: the admissible boundaries do not change *)
Theorem pre_cont_junk2 PRE ops opos adm cmax rm r W :
  pre_cont P PRE ops opos adm cmax rm -> junk_at2 (lenN PRE) r W -> rm <= r - lenN PRE + 7 ->
  pre_cont P (PRE ++ W) ops opos adm (Datatypes.S cmax) 7.
Proof.
  intros Hpc (Hj & Hint) Hrm.
  pose proof (H3 pre_cont_junk PRE ops opos adm cmax rm r W Hpc Hj Hrm) as (Hsh2 & Hcont2).
  destruct Hpc as ((Hlen & Hpos) & _).
  destruct Hj as (Har & HlW & _).
  set (a := lenN PRE) in *.
  assert (Ha2 : lenN (PRE ++ W) = r) by (rewrite lenN_app; fold a; lia).
  split; [exact Hsh2|].
  intros kb post S buf0 gofuel HS Hok Hblk Hadm Hkb Hroom Hgf.
  destruct (N.le_gt_cases (kb * B) (ffp a)) as [HB|HB].
  { apply (Hcont2 kb post S buf0 gofuel HS Hok Hblk); try assumption. split; [exact Hadm|]. left. exact HB. }
  destruct (N.le_gt_cases r (kb * B)) as [HR|HR].
  { apply (Hcont2 kb post S buf0 gofuel HS Hok Hblk); try assumption. split; [exact Hadm|]. right. exact HR. }
  (* the boundary is strictly inside the junk *)
  rewrite Ha2 in *. rewrite <- app_assoc in HS.
  pose proof (H2 ffp_ge a) as Hffa.
  rewrite (H3 dfilter_none (kb * B) ops opos).
  2:{ eapply Forall_impl; [|exact Hpos]. cbn beta. fold a. intros s H. lia. }
  destruct (Hint S PRE post kb buf0 Hok HS eq_refl Hroom HB HR)
    as (n & rr2 & cj & Hcj & Hn & Hra & Hout).
  pose proof (H3 reads_at_bpos S _ r Hra) as Hbp2.
  destruct Hra as (fr0 & Hat0 & Hrf).
  pose proof (H3 TornProofs.at_posn_at_pos S fr0 r Hat0) as Hatr.
  pose proof (H2 ffp_ge r) as Hffr.
  assert (Hgn : (n + 2 <= gofuel)%nat) by lia.
  destruct Hout as [(-> & Hsil) | (-> & Hcor)].
  - exists [], 0%nat, (mkRR (rdat S kb 0) buf0 false), (mkRR fr0 (rr_buf rr2) (rr_within rr2)), (gofuel - n)%nat.
    cbn [combine length map app Nat.add].
    split; [reflexivity|]. split; [constructor|]. split; [lia|].
    split.
    { split.
      { remember (gofuel - n - 1)%nat as f' eqn:Ef'.
        assert (Eg : gofuel = (n + Datatypes.S f')%nat) by lia.
        assert (Egn : (gofuel - n)%nat = Datatypes.S f') by lia.
        rewrite Egn. rewrite Eg at 1. rewrite Hsil.
        destruct rr2 as [fr2 b2 w2]. cbn [rr_fr rr_buf rr_within] in *.
        apply (TornProofs.gonext_cong P). exact Hrf. }
      split; [exact Hatr|].
      split; [cbn [rr_fr]; rewrite (H3 bpos_rd_at) by exact Hblk; lia|].
      split; [lia|]. lia. }
    intros l' c' rrf H. exact H.
  - exists [], 1%nat, rr2, (mkRR fr0 (rr_buf rr2) (rr_within rr2)), gofuel.
    cbn [combine length map app].
    split; [reflexivity|]. split; [constructor|]. split; [lia|].
    split.
    { split.
      { destruct gofuel as [|gf]; [lia|].
        destruct rr2 as [fr2 b2 w2]. cbn [rr_fr rr_buf rr_within] in *.
        apply (TornProofs.gonext_cong P). exact Hrf. }
      split; [exact Hatr|].
      split; [lia|].
      split; [lia|]. replace (gofuel - gofuel)%nat with 0%nat by lia. lia. }
    intros l' c' rrf Hl'. cbn [Nat.add].
    eapply RC_cor; [|exact Hl'].
    replace gofuel with (n + Datatypes.S (gofuel - n - 1))%nat by lia. apply Hcor.
Qed.

End KJunk.

Print Assumptions junk_of_torn2.
Print Assumptions pre_cont_junk2.
