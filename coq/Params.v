(* Params.v — the constants and external functions the model is parametric in. *)
From MRL Require Import Bytes.

Record params := mkParams {
  BS : N;                         (* BLOCK_NUM_BYTES = FRAME_NUM_BYTES *)
  NB : N;                         (* NUM_BLOCKS_PER_FILE *)
  crcf : byte -> bytes -> N;      (* checksum of (frame type byte, payload) *)
  RMS : N;                        (* size_of::<RecordMeta>() *)
  (* pre-repair behaviours, kept so that the findings stay expressible (History.v);
     all three are false for the code as it is now *)
  L_GC : bool;     (* true: GC persists only if it wrote a position record (before fix 1fd4bff) *)
  L_IO : bool;     (* true: replay loop retries on I/O errors (before fix 771aed2) *)
  L_SHORT : bool   (* true: a short last file is not resized on open (before fix e7ddcf6) *)
}.

Definition HEADER_LEN : N := 7.
Definition FILE_BYTES (P : params) : N := BS P * NB P.

(* io::ErrorKind as seen by the harness *)
Inductive ioerr := IoUnexpectedEof | IoAlreadyExists | IoNotFound
                 | IoPermissionDenied | IoOther | IoInterrupted | IoIsADirectory.

Inductive res (A : Type) := Ok (a : A) | Err (e : ioerr).
Arguments Ok {A} a.
Arguments Err {A} e.

Definition bind {A B} (r : res A) (f : A -> res B) : res B :=
  match r with Ok a => f a | Err e => Err e end.
