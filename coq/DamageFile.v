(* DamageFile.v — `open` on WAL files in which frames were damaged in place (checksum and / or
   payload bytes changed so that the CRC check fails; length field and type byte intact): it
   replays exactly the intact entries.  File level of properties C09 / C12 / C08-detected.

   Part 1: stream level (vecr) from a block boundary, traced (reads_trc): the reader skips the
           remaining frames of the straddling entry (damaged ones cost one RCorrupt each), then
           delivers exactly the entries with first frame at or after the boundary all of whose
           frames are intact, with RCorrupt steps in between, then End — WITHOUT a spare zero
           block after the written bytes (as in OpenReplay).
   Part 2: the rolling files: open_damaged.
   Part 3: one damaged entry (DamageProofs.enc_dmg): E_ok = E_suf without it.

   The damaged stream is described with DamageProofs.encs_any: a per-entry list of frame specs
   (fspec: 4 checksum bytes, type, payload bytes) such that every frame stands where the writer
   put it, has the original type and length, and either fails the CRC check or carries the
   original payload chunk (frame_for). *)
From Coq Require Import Lia ZArith ZifyN ZifyNat ZifyBool Sorted.
From MRL Require Import Bytes BytesProofs Params Names NamesProofs Frame Record Mem Rolling Log
  Driver StreamProofs DamageProofs TornProofs PolicyProofs GcProofs FileStream ResyncProofs
  RecordProofs GhostLog OpenTerm OpenReplay TornFile.

Arguments N.add : simpl never.
Arguments N.sub : simpl never.
Arguments N.mul : simpl never.
Arguments N.eqb : simpl never.
Arguments N.ltb : simpl never.
Arguments N.leb : simpl never.
Arguments N.div : simpl never.
Arguments N.modulo : simpl never.
Arguments N.min : simpl never.
Arguments N.max : simpl never.

Local Notation fspecD := DamageProofs.fspec.

(* ====================================================================== *)
(* Part 1. Stream level                                                    *)
(* ====================================================================== *)
Section Stream.
Variable P : params.
Hypothesis HBS_lo : 7 < BS P.
Hypothesis HBS_hi : BS P <= 65542.
Hypothesis Hcrc : forall t p, crcf P t p < 2 ^ 32.

Local Notation B := (BS P).
Local Notation rframe := (read_frame P vecr (vr_next P) vr_block).
Local Notation gonext := (go_next P vecr (vr_next P) vr_block).
Local Notation padof := (pad_of P).
Local Notation chunkof := (chunk_of P).
Local Notation encrel := (enc_rel P).
Local Notation encsrel := (encs_rel P).
Local Notation rdat := (rd_at P).
Local Notation atpos := (at_pos P).
Local Notation sok := (stream_ok P).
Local Notation ffp := (first_frame_pos P).
Local Notation encany := (enc_any P).
Local Notation encsany := (encs_any P).
Local Notation good := (fs_good P).
Local Notation cbad := (countbad P).
Local Notation isintact := (intact P).
Local Notation readsC := (reads_trc P (vr_next P) vr_block).
Local Notation H3 f := (f P HBS_lo HBS_hi Hcrc) (only parsing).
Local Notation H2 f := (f P HBS_lo HBS_hi) (only parsing).

(* ---------- one frame of a (possibly damaged) encoding ---------- *)
Lemma frame_step a f l p x S pre post fr :
  frame_for P a f l p x -> sok S -> atpos S fr a ->
  S = pre ++ padof a ++ fs_bytes x ++ post -> lenN pre = a ->
  exists fr',
    rframe fr = (fr', if good x then FOk (frame_type f l) (takeN (chunkof a p) p) else FCorrupt) /\
    atpos S fr' (a + lenN (padof a) + 7 + chunkof a p).
Proof.
  intros (Ht & Hc4 & Hl & Hg) Hok Hat HS Hpre. unfold fs_bytes in HS.
  destruct (H3 read_frame_gen_at S fr a pre _ _ _ post Hok Hat HS Hpre Hc4) as (fr' & Hrf & Hat').
  { rewrite Hl. apply (H3 DamageProofs.chunk_fits). }
  exists fr'. rewrite Hl in Hat'. split; [|exact Hat'].
  rewrite Hrf, frame_verdict_fs. destruct (good x) eqn:Eg; [|reflexivity].
  rewrite Ht, (Hg eq_refl). reflexivity.
Qed.

Lemma lenN_fs_bytes a f l p x : frame_for P a f l p x -> lenN (fs_bytes x) = 7 + chunkof a p.
Proof. intros (_ & Hc4 & Hl & _). unfold fs_bytes. rewrite lenN_dframe by exact Hc4. lia. Qed.

(* the rest of a damaged entry still ahead of the reader: nothing, or a non-first continuation *)
Inductive tl_spec : N -> list fspecD -> bytes -> Prop :=
| TL_nil q : tl_spec q [] []
| TL_enc q p xs e : encany q false p xs e -> tl_spec q xs e.

(* (a) all frames intact, and the reader is collecting (first frame, or within): the record *)
Lemma go_next_any_good a f p xs e :
  encany a f p xs e -> forallb good xs = true ->
  forall S pre post fr buf w fuel,
    sok S -> atpos S fr a -> S = pre ++ e ++ post -> lenN pre = a ->
    (length xs <= fuel)%nat -> f = true \/ w = true ->
    exists fr',
      gonext fuel (mkRR fr buf w) = (mkRR fr' ((if f then [] else buf) ++ p) false, RRecord) /\
      atpos S fr' (a + lenN e).
Proof.
  induction 1 as [a f p x Hd Hff | a f p x xs e Hd Hff Hr IH];
    intros Hall S pre post fr buf w fuel Hok Hat HS Hpre Hfuel Hfw;
    cbn [forallb] in Hall; apply andb_true_iff in Hall as [Hgx Hall];
    (destruct fuel as [|fuel]; [cbn [length] in Hfuel; lia|]);
    assert (Hw : (if f then true else w) = true)
      by (destruct f; [reflexivity | destruct Hfw as [Hf|Hw]; [discriminate|exact Hw]]);
    pose proof (lenN_fs_bytes _ _ _ _ _ Hff) as Hlx;
    rewrite <- ?app_assoc in HS;
    destruct (frame_step _ _ _ _ _ S pre _ fr Hff Hok Hat HS Hpre) as (fr' & Hrf & Hat');
    rewrite Hgx in Hrf; rewrite go_next_S; cbn [rr_fr rr_buf rr_within]; rewrite Hrf; cbv zeta;
    rewrite is_first_frame_type, is_last_frame_type, Hw.
  - exists fr'. split.
    + pose proof (takeN_dropN (chunkof a p) p) as Htd. rewrite Hd, app_nil_r in Htd.
      rewrite Htd. reflexivity.
    + rewrite lenN_app, Hlx.
      replace (a + (lenN (padof a) + (7 + chunkof a p))) with (a + lenN (padof a) + 7 + chunkof a p) by lia.
      exact Hat'.
  - cbn [length] in Hfuel.
    destruct (IH Hall S (pre ++ padof a ++ fs_bytes x) post fr'
                ((if f then [] else buf) ++ takeN (chunkof a p) p) true fuel Hok Hat')
      as (fr'' & Hgo & Hat'').
    + rewrite HS, <- !app_assoc. reflexivity.
    + rewrite !lenN_app, Hlx. lia.
    + lia.
    + right; reflexivity.
    + exists fr''. split.
      * rewrite Hgo. cbn match. rewrite <- app_assoc, takeN_dropN. reflexivity.
      * rewrite !lenN_app, Hlx.
        replace (a + (lenN (padof a) + (7 + chunkof a p + lenN e)))
          with (a + lenN (padof a) + 7 + chunkof a p + lenN e) by lia.
        exact Hat''.
Qed.

(* (b) all frames intact, non-first continuation read with within = false: skipped *)
Lemma go_next_any_skip a f p xs e :
  encany a f p xs e -> f = false -> forallb good xs = true ->
  forall S pre post fr,
    sok S -> atpos S fr a -> S = pre ++ e ++ post -> lenN pre = a ->
    exists fr',
      atpos S fr' (a + lenN e) /\
      forall fuel buf, gonext (length xs + fuel) (mkRR fr buf false) = gonext fuel (mkRR fr' buf false).
Proof.
  induction 1 as [a f p x Hd Hff | a f p x xs e Hd Hff Hr IH];
    intros Hf Hall S pre post fr Hok Hat HS Hpre; subst f;
    cbn [forallb] in Hall; apply andb_true_iff in Hall as [Hgx Hall];
    pose proof (lenN_fs_bytes _ _ _ _ _ Hff) as Hlx;
    rewrite <- ?app_assoc in HS;
    destruct (frame_step _ _ _ _ _ S pre _ fr Hff Hok Hat HS Hpre) as (fr' & Hrf & Hat');
    rewrite Hgx in Hrf.
  - exists fr'. split.
    + rewrite lenN_app, Hlx.
      replace (a + (lenN (padof a) + (7 + chunkof a p))) with (a + lenN (padof a) + 7 + chunkof a p) by lia.
      exact Hat'.
    + intros fuel buf. cbn [length Nat.add]. rewrite go_next_S. cbn [rr_fr rr_buf rr_within].
      rewrite Hrf. cbv zeta. rewrite is_first_frame_type. reflexivity.
  - destruct (IH eq_refl Hall S (pre ++ padof a ++ fs_bytes x) post fr' Hok Hat') as (fr'' & Hat'' & Hgo).
    + rewrite HS, <- !app_assoc. reflexivity.
    + rewrite !lenN_app, Hlx. lia.
    + exists fr''. split.
      * rewrite !lenN_app, Hlx.
        replace (a + (lenN (padof a) + (7 + chunkof a p + lenN e)))
          with (a + lenN (padof a) + 7 + chunkof a p + lenN e) by lia.
        exact Hat''.
      * intros fuel buf. cbn [length Nat.add]. rewrite go_next_S. cbn [rr_fr rr_buf rr_within].
        rewrite Hrf. cbv zeta. rewrite is_first_frame_type. apply Hgo.
Qed.

(* (c) some frame is damaged: one RCorrupt, the reader is left just after the first damaged
   frame with within = false, the rest of the entry still ahead *)
Lemma go_next_any_bad a f p xs e :
  encany a f p xs e -> forallb good xs = false ->
  forall S pre post fr buf w fuel,
    sok S -> atpos S fr a -> S = pre ++ e ++ post -> lenN pre = a ->
    (length xs <= fuel)%nat ->
    exists fr1 buf1 q2 xs2 e2 pre2,
      gonext fuel (mkRR fr buf w) = (mkRR fr1 buf1 false, RCorrupt) /\
      atpos S fr1 q2 /\ S = pre2 ++ e2 ++ post /\ lenN pre2 = q2 /\
      q2 + lenN e2 = a + lenN e /\ tl_spec q2 xs2 e2 /\
      cbad xs = Datatypes.S (cbad xs2) /\ (length xs2 < length xs)%nat.
Proof.
  induction 1 as [a f p x Hd Hff | a f p x xs e Hd Hff Hr IH];
    intros Hall S pre post fr buf w fuel Hok Hat HS Hpre Hfuel;
    cbn [forallb] in Hall;
    (destruct fuel as [|fuel]; [cbn [length] in Hfuel; lia|]);
    pose proof (lenN_fs_bytes _ _ _ _ _ Hff) as Hlx;
    rewrite <- ?app_assoc in HS;
    destruct (frame_step _ _ _ _ _ S pre _ fr Hff Hok Hat HS Hpre) as (fr' & Hrf & Hat');
    rewrite go_next_S; cbn [rr_fr rr_buf rr_within]; rewrite Hrf; cbv zeta.
  - rewrite andb_true_r in Hall. rewrite Hall.
    exists fr', buf, (a + lenN (padof a) + 7 + chunkof a p), [], [], (pre ++ padof a ++ fs_bytes x).
    split; [reflexivity|]. split; [exact Hat'|]. split; [rewrite HS, <- !app_assoc; reflexivity|].
    split; [rewrite !lenN_app, Hlx; lia|]. split; [rewrite (@lenN_nil byte), lenN_app, Hlx; lia|].
    split; [constructor|]. cbn [countbad length]. rewrite Hall. split; [reflexivity|lia].
  - cbn [length] in Hfuel. destruct (good x) eqn:Hgx.
    + cbn [andb] in Hall. rewrite is_first_frame_type, is_last_frame_type.
      assert (Hrec : forall buf' w',
        exists fr1 buf1 q2 xs2 e2 pre2,
          gonext fuel (mkRR fr' buf' w') = (mkRR fr1 buf1 false, RCorrupt) /\
          atpos S fr1 q2 /\ S = pre2 ++ e2 ++ post /\ lenN pre2 = q2 /\
          q2 + lenN e2 = a + lenN (padof a ++ fs_bytes x ++ e) /\ tl_spec q2 xs2 e2 /\
          cbad (x :: xs) = Datatypes.S (cbad xs2) /\ (length xs2 < length (x :: xs))%nat).
      { intros buf' w'.
        destruct (IH Hall S (pre ++ padof a ++ fs_bytes x) post fr' buf' w' fuel Hok Hat')
          as (fr1 & buf1 & q2 & xs2 & e2 & pre2 & Hgo & Hat1 & HS2 & Hpre2 & Hq2 & Htl & Hcb & Hlen).
        - rewrite HS, <- !app_assoc. reflexivity.
        - rewrite !lenN_app, Hlx. lia.
        - lia.
        - exists fr1, buf1, q2, xs2, e2, pre2. repeat split; try assumption.
          + rewrite !lenN_app, Hlx. lia.
          + cbn [countbad]. rewrite Hgx. exact Hcb.
          + cbn [length]. lia. }
      destruct (if f then true else w); apply Hrec.
    + exists fr', buf, (a + lenN (padof a) + 7 + chunkof a p), xs, e, (pre ++ padof a ++ fs_bytes x).
      split; [reflexivity|]. split; [exact Hat'|]. split; [rewrite HS, <- !app_assoc; reflexivity|].
      split; [rewrite !lenN_app, Hlx; lia|]. split; [rewrite !lenN_app, Hlx; lia|].
      split; [econstructor; exact Hr|]. cbn [countbad length]. rewrite Hgx. split; [reflexivity|lia].
Qed.

(* ---------- the reader between two entries ---------- *)
(* rr (within = false) behaves, after j frames skipped, as a reader positioned at the writer's
   cursor a, and its block does not start after the first-frame position of a *)
Definition pend (S : bytes) (rr : rreader vecr) (a : N) (j : nat) : Prop :=
  rr_within rr = false /\ bpos P S (fr_rd (rr_fr rr)) <= ffp a /\
  exists fr', atpos S fr' a /\
    forall fuel, gonext (j + Datatypes.S fuel) rr = gonext (Datatypes.S fuel) (mkRR fr' (rr_buf rr) false).

Lemma pend_here S fr buf a : atpos S fr a -> pend S (mkRR fr buf false) a 0.
Proof.
  intros Hat. split; [reflexivity|]. split.
  - cbn [rr_fr]. pose proof (H3 at_pos_bpos S fr a Hat). pose proof (H2 ffp_ge a). lia.
  - exists fr. split; [exact Hat|]. intros fuel. reflexivity.
Qed.

(* the rest of a damaged entry: one RCorrupt per damaged frame, then the reader is between
   two entries *)
Lemma run_tail n : forall q xs e, tl_spec q xs e -> (length xs < n)%nat ->
  forall S pre post fr buf g,
    sok S -> atpos S fr q -> S = pre ++ e ++ post -> lenN pre = q -> (length xs <= g)%nat ->
    exists rr2 j,
      pend S rr2 (q + lenN e) j /\ (j <= length xs)%nat /\
      forall l c rrf, readsC g rr2 l c rrf -> readsC g (mkRR fr buf false) l (cbad xs + c) rrf.
Proof.
  induction n as [|n IH]; intros q xs e Htl Hn S pre post fr buf g Hok Hat HS Hpre Hg; [lia|].
  destruct Htl as [q | q p xs e He].
  - exists (mkRR fr buf false), 0%nat. rewrite (@lenN_nil byte), N.add_0_r.
    split; [apply pend_here; exact Hat|]. split; [lia|]. intros l c rrf Hr. exact Hr.
  - destruct (forallb good xs) eqn:Hall.
    + destruct (go_next_any_skip _ _ _ _ _ He eq_refl Hall S pre post fr Hok Hat HS Hpre)
        as (fr' & Hat' & Hgo).
      exists (mkRR fr buf false), (length xs). split; [|split; [lia|]].
      * split; [reflexivity|]. split.
        -- cbn [rr_fr]. pose proof (H3 at_pos_bpos S fr q Hat). pose proof (H2 ffp_ge (q + lenN e)). lia.
        -- exists fr'. split; [exact Hat'|]. intros fuel. apply Hgo.
      * intros l c rrf Hr. rewrite (countbad_allgood P xs Hall). exact Hr.
    + destruct (go_next_any_bad _ _ _ _ _ He Hall S pre post fr buf false g Hok Hat HS Hpre Hg)
        as (fr1 & buf1 & q2 & xs2 & e2 & pre2 & Hgo & Hat1 & HS2 & Hpre2 & Hq2 & Htl2 & Hcb & Hlen).
      destruct (IH q2 xs2 e2 Htl2 ltac:(lia) S pre2 post fr1 buf1 g Hok Hat1 HS2 Hpre2 ltac:(lia))
        as (rr2 & j & Hpend & Hj & Hcont).
      exists rr2, j. rewrite <- Hq2. split; [exact Hpend|]. split; [lia|].
      intros l c rrf Hr. rewrite Hcb. cbn [Nat.add].
      eapply RC_cor; [exact Hgo|]. apply Hcont. exact Hr.
Qed.

(* ---------- a run of (possibly damaged) entries, traced ---------- *)
(* (start cursor, first-frame position) of the intact entries of pxs written from cursor a *)
Fixpoint ok_sts (a : N) (pxs : list (bytes * list fspecD)) : list (N * N) :=
  match pxs with
  | [] => []
  | px :: r =>
      let a' := a + lenN (enc_of P a (fst px)) in
      if isintact px then (a, ffp a) :: ok_sts a' r else ok_sts a' r
  end.

(* it is the sub-list of `starts` at the intact entries *)
Lemma ok_sts_filter pxs : forall a,
  ok_sts a pxs =
  map snd (filter (fun y : (bytes * list fspecD) * (N * N) => isintact (fst y))
                  (combine pxs (starts P a (map fst pxs)))).
Proof.
  induction pxs as [|px r IH]; intros a; cbn [ok_sts map starts combine filter fst]; [reflexivity|].
  destruct (isintact px); cbn [map snd]; rewrite IH; reflexivity.
Qed.

(* number of damaged frames *)
Definition cb_total (pxs : list (bytes * list fspecD)) : nat :=
  fold_right Nat.add 0%nat (map (fun px => cbad (snd px)) pxs).

Lemma cbad_le xs : (cbad xs <= length xs)%nat.
Proof.
  induction xs as [|x xs IH]; cbn [countbad length]; [lia|]. destruct (good x); lia.
Qed.

Lemma cb_total_le pxs : (cb_total pxs <= length (flat_map snd pxs))%nat.
Proof.
  unfold cb_total. induction pxs as [|[p xs] r IH]; cbn [map fold_right flat_map snd]; [lia|].
  rewrite app_length. pose proof (cbad_le xs). lia.
Qed.

Lemma enc_any_len a p xs e : encany a true p xs e -> lenN (enc_of P a p) = lenN e.
Proof.
  intros He. destruct (H3 enc_any_orig _ _ _ _ _ He) as (e0 & Hrel & Hlen).
  rewrite (H3 enc_rel_enc_of _ _ _ _ Hrel). exact Hlen.
Qed.

Lemma enc_any_ffp_lt a f p xs e : encany a f p xs e -> ffp a + 7 <= a + lenN e.
Proof.
  intros He. destruct (H3 enc_any_orig _ _ _ _ _ He) as (e0 & Hrel & Hlen).
  rewrite <- Hlen. apply (H3 enc_rel_ffp_lt _ _ _ _ _ Hrel).
Qed.

Lemma encs_any_cursor a pxs t : encsany a pxs t -> cursor_after P a (map fst pxs) = a + lenN t.
Proof.
  intros H. destruct (H3 encs_any_orig _ _ _ H) as (t0 & Hrel & Hlen).
  rewrite (H3 cursor_after_rel _ _ _ Hrel), Hlen. reflexivity.
Qed.

Lemma run_any a pxs t :
  encsany a pxs t ->
  forall S pre z rr j g,
    sok S -> S = pre ++ t ++ zerosN z -> lenN pre = a -> pend S rr a j ->
    (j + length (flat_map snd pxs) + 1 <= g)%nat ->
    exists rrs rrf,
      length rrs = length (filter isintact pxs) /\
      readsC g rr (combine rrs (map fst (filter isintact pxs))) (cb_total pxs) rrf /\
      tr_ok P S rrs (ok_sts a pxs) /\ at_end P S (rr_fr rrf) (a + lenN t).
Proof.
  induction 1 as [a | a p xs e pxs t He Hes IH]; intros S pre z rr j g Hok HS Hpre Hpend Hg.
  - destruct Hpend as (Hw & Hb & fr' & Hat & Hgo).
    set (g' := (g - j - 1)%nat). assert (Eg : g = (j + Datatypes.S g')%nat) by lia.
    clearbody g'. subst g. cbn [app] in HS.
    destruct (H3 go_next_end_gen S pre z (mkRR fr' (rr_buf rr) false) a g' HS ltac:(lia) Hat)
      as (fr'' & Hend & Hp).
    exists [], (mkRR fr'' (rr_buf rr) false). cbn [filter map combine length ok_sts rr_fr].
    rewrite (@lenN_nil byte), N.add_0_r.
    split; [reflexivity|]. split; [|split; [constructor|exact Hp]].
    apply RC_end. rewrite Hgo. exact Hend.
  - destruct Hpend as (Hw & Hb & fr' & Hat & Hgo).
    destruct rr as [fr0 buf0 w0]. cbn [rr_within rr_buf rr_fr] in *. subst w0.
    cbn [flat_map snd] in Hg. rewrite app_length in Hg.
    set (g' := (g - j - 1)%nat). assert (Eg : g = (j + Datatypes.S g')%nat) by lia.
    rewrite <- app_assoc in HS.
    assert (HS' : S = (pre ++ e) ++ t ++ zerosN z) by (rewrite HS, <- app_assoc; reflexivity).
    assert (Hpre' : lenN (pre ++ e) = a + lenN e) by (rewrite lenN_app; lia).
    cbn [ok_sts filter fst]. rewrite (enc_any_len _ _ _ _ He).
    unfold cb_total. cbn [map fold_right snd]. fold (cb_total pxs).
    rewrite lenN_app. replace (a + (lenN e + lenN t)) with (a + lenN e + lenN t) by lia.
    assert (Hint : isintact (p, xs) = forallb good xs) by reflexivity. rewrite !Hint.
    destruct (forallb good xs) eqn:Hall.
    + destruct (go_next_any_good _ _ _ _ _ He Hall S pre (t ++ zerosN z) fr' buf0 false
                  (Datatypes.S g') Hok Hat HS Hpre ltac:(lia) ltac:(left; reflexivity))
        as (fr2 & Hgo2 & Hat2).
      cbn [app] in Hgo2.
      destruct (IH S (pre ++ e) z (mkRR fr2 p false) 0%nat g Hok HS' Hpre'
                  (pend_here S fr2 p _ Hat2) ltac:(lia)) as (rrs & rrf & Hlen & Hrd & Htr & Hend).
      exists (mkRR fr0 buf0 false :: rrs), rrf.
      split; [cbn [length]; now rewrite Hlen|]. split; [|split; [|exact Hend]].
      * cbn [map fst combine]. rewrite (countbad_allgood P xs Hall). cbn [Nat.add].
        apply (RC_rec P vecr (vr_next P) vr_block g (mkRR fr0 buf0 false) (mkRR fr2 p false));
          [|exact Hrd].
        rewrite Eg, Hgo. exact Hgo2.
      * constructor; [|exact Htr]. cbn [rr_fr snd]. exact Hb.
    + destruct (go_next_any_bad _ _ _ _ _ He Hall S pre (t ++ zerosN z) fr' buf0 false
                  (Datatypes.S g') Hok Hat HS Hpre ltac:(lia))
        as (fr1 & buf1 & q2 & xs2 & e2 & pre2 & Hgo1 & Hat1 & HS2 & Hpre2 & Hq2 & Htl2 & Hcb & Hlen2).
      destruct (run_tail (Datatypes.S (length xs2)) q2 xs2 e2 Htl2 ltac:(lia) S pre2 (t ++ zerosN z)
                  fr1 buf1 g Hok Hat1 HS2 Hpre2 ltac:(lia)) as (rr3 & j3 & Hpend3 & Hj3 & Hcont).
      rewrite Hq2 in Hpend3.
      destruct (IH S (pre ++ e) z rr3 j3 g Hok HS' Hpre' Hpend3 ltac:(lia))
        as (rrs & rrf & Hlen & Hrd & Htr & Hend).
      exists rrs, rrf. split; [exact Hlen|]. split; [|split; [exact Htr|exact Hend]].
      rewrite Hcb. cbn [Nat.add].
      eapply RC_cor; [rewrite Eg, Hgo; exact Hgo1|]. apply Hcont. exact Hrd.
Qed.

(* ---------- block boundaries inside a (possibly damaged) encoding ---------- *)
Lemma encs_any_app_inv pxs1 : forall a pxs2 t,
  encsany a (pxs1 ++ pxs2) t ->
  exists t1 t2, t = t1 ++ t2 /\ encsany a pxs1 t1 /\ encsany (a + lenN t1) pxs2 t2.
Proof.
  induction pxs1 as [|y pxs1 IH]; intros a pxs2 t H.
  - exists [], t. rewrite (@lenN_nil byte), N.add_0_r. repeat split; [constructor|exact H].
  - cbn [app] in H. inversion H as [|a' p xs e pxs' t' He Hes]; subst.
    destruct (IH _ _ _ Hes) as (t1 & t2 & -> & H1 & H2').
    exists (e ++ t1), t2. rewrite <- app_assoc. split; [reflexivity|]. split.
    + econstructor; eassumption.
    + rewrite lenN_app. replace (a + (lenN e + lenN t1)) with (a + lenN e + lenN t1) by lia.
      exact H2'.
Qed.

(* cf. ResyncProofs.enc_rel_split_at_block *)
Lemma enc_any_split_at_block a f p xs e :
  encany a f p xs e ->
  forall kb, ffp a < kb * B -> kb * B <= a + lenN e ->
    kb * B = a + lenN e \/
    exists e1 e2 p2 xs2,
      e = e1 ++ e2 /\ a + lenN e1 = kb * B /\ encany (kb * B) false p2 xs2 e2 /\
      (length xs2 < length xs)%nat.
Proof.
  induction 1 as [a f p x Hd Hff | a f p x xs e Hd Hff Hr IH]; intros kb Hlo Hhi;
    pose proof (lenN_fs_bytes _ _ _ _ _ Hff) as Hlx; unfold first_frame_pos in Hlo;
    destruct (H2 pad_geom a) as (k' & c' & Hp & Hc' & Hmw & _).
  - left. rewrite lenN_app, Hlx in *.
    pose proof (H3 DamageProofs.chunk_fits a p) as Hch.
    pose proof (H2 blocks_above kb k' (c' + 1)) as Hb. lia.
  - rewrite !lenN_app, Hlx in *.
    pose proof (H3 ResyncProofs.chunk_full a p Hd) as Hch.
    pose proof (H2 blocks_above kb k' (c' + 1)) as Hb.
    set (a' := a + lenN (padof a) + 7 + chunkof a p) in *.
    assert (Ha' : a' = (k' + 1) * B) by (unfold a'; lia).
    destruct (N.eq_dec (kb * B) a') as [E|E].
    + right. exists (padof a ++ fs_bytes x), e, (dropN (chunkof a p) p), xs.
      split; [now rewrite <- app_assoc|]. split; [rewrite lenN_app, Hlx; unfold a' in E; lia|].
      split; [rewrite E; exact Hr|]. cbn [length]. lia.
    + assert (Hffp : ffp a' = a') by (rewrite Ha'; apply (H2 ffp_aligned)).
      destruct (IH kb) as [Hend | (e1 & e2 & p2 & xs2 & He & Hl & Hrel & Hk)].
      * rewrite Hffp. lia.
      * lia.
      * left. lia.
      * right. exists (padof a ++ fs_bytes x ++ e1), e2, p2, xs2.
        split; [rewrite He, <- !app_assoc; reflexivity|].
        split; [rewrite !lenN_app, Hlx; unfold a' in Hl; lia|].
        split; [exact Hrel|]. cbn [length]. lia.
Qed.

(* cf. ResyncProofs.boundary_cases *)
Lemma boundary_cases_any a pxs1 t1 kb :
  encsany a pxs1 t1 -> a <= kb * B ->
  Forall (fun s => snd s < kb * B) (starts P a (map fst pxs1)) ->
  a + lenN t1 <= kb * B \/
  exists t1' e1 e2 p2 xs2,
    t1 = t1' ++ e1 ++ e2 /\ a + lenN t1' + lenN e1 = kb * B /\
    encany (kb * B) false p2 xs2 e2 /\ (length xs2 <= length (flat_map snd pxs1))%nat.
Proof.
  intros Hes1 Ha Hall.
  induction pxs1 as [|[x xs] pxs1' _] using rev_ind.
  - left. inversion Hes1; subst. rewrite (@lenN_nil byte). lia.
  - destruct (encs_any_app_inv pxs1' a [(x, xs)] t1 Hes1) as (t1' & tx & -> & Hes1' & Hx).
    inversion Hx as [|a0 p0 xs0 ex pxs0 t'' Hex Hnil]; subst.
    inversion Hnil; subst. rewrite app_nil_r in *.
    rewrite map_app, (H3 starts_app) in Hall. apply Forall_app in Hall as [_ Hlast].
    rewrite (encs_any_cursor _ _ _ Hes1') in Hlast. cbn [map starts fst] in Hlast.
    inversion Hlast as [|s l Hs _]; subst. cbn [snd] in Hs.
    rewrite lenN_app.
    destruct (N.le_gt_cases (kb * B) (a + lenN t1' + lenN ex)) as [Hle|Hgt]; [|left; lia].
    destruct (enc_any_split_at_block _ _ _ _ _ Hex kb Hs Hle)
      as [Hend | (e1 & e2 & p2 & xs2 & He & Hl & Hrel & Hk)].
    + left. lia.
    + right. exists t1', e1, e2, p2, xs2. rewrite He.
      split; [reflexivity|]. split; [lia|]. split; [exact Hrel|].
      rewrite flat_map_app, app_length. cbn [flat_map snd length]. rewrite app_nil_r. lia.
Qed.

(* ---------- (1) reading a damaged stream from a block boundary ---------- *)
(* S = T' ++ zeros is any whole number of blocks (no spare zero block after T'); T' is the
   layout of the frames of pxs, each intact or damaged.  From block kb the reader delivers
   exactly the intact entries among those whose first frame lies at or after kb * B (pxs2), in
   order, each read from a reader whose block starts at or before the entry's first frame,
   with c RCorrupt steps (at most one per frame) in between, then End, where the reader of
   the intact stream would end. *)
Theorem read_damaged_tr pxs T' S z kb buf0 g :
  encsany 0 pxs T' -> S = T' ++ zerosN z -> sok S -> (kb + 1) * B <= lenN S ->
  (length (flat_map snd pxs) + 1 <= g)%nat ->
  exists pxs1 pxs2 rrs c rrf,
    pxs = pxs1 ++ pxs2 /\
    map fst pxs1 = skipped_before P (kb * B) 0 (map fst pxs) /\
    map fst pxs2 = delivered_from P (kb * B) 0 (map fst pxs) /\
    length rrs = length (filter isintact pxs2) /\
    readsC g (mkRR (rdat S kb 0) buf0 false) (combine rrs (map fst (filter isintact pxs2))) c rrf /\
    (c <= length (flat_map snd pxs))%nat /\
    tr_ok P S rrs (ok_sts (cursor_after P 0 (map fst pxs1)) pxs2) /\
    at_end P S (rr_fr rrf) (N.max (kb * B) (lenN T')).
Proof.
  intros Hany HS Hok Hblk Hg.
  pose proof (skipped_delivered P (kb * B) (map fst pxs) 0) as Hsplit.
  destruct (map_app_inv fst pxs _ _ Hsplit) as (pxs1 & pxs2 & -> & Hm1 & Hm2).
  destruct (encs_any_app_inv pxs1 0 pxs2 T' Hany) as (t1 & t2 & -> & Hes1 & Hes2).
  rewrite flat_map_app, app_length in Hg.
  pose proof (encs_any_cursor _ _ _ Hes1) as Hcur.
  pose proof (H3 at_pos_boundary S kb Hblk) as Hat_b.
  assert (Hall : Forall (fun s => snd s < kb * B) (starts P 0 (map fst pxs1)))
    by (rewrite Hm1; apply skipped_starts).
  exists pxs1, pxs2. rewrite Hcur.
  destruct (boundary_cases_any 0 pxs1 t1 kb Hes1 ltac:(lia) Hall)
    as [HA | (t1' & e1 & e2 & p2 & xs2 & Ht1 & Hl & Hrel & Hk2)].
  - destruct pxs2 as [|[p xs] pxs2'].
    + inversion Hes2; subst t2. rewrite app_nil_r in *.
      destruct g as [|g]; [lia|].
      destruct (H3 go_next_end_gen S t1 z (mkRR (rdat S kb 0) buf0 false) (kb * B) g HS ltac:(lia) Hat_b)
        as (fr' & Hend & Hp).
      exists [], 0%nat, (mkRR fr' buf0 false). cbn [filter map combine length ok_sts rr_fr].
      split; [reflexivity|]. split; [exact Hm1|]. split; [exact Hm2|]. split; [reflexivity|].
      split; [apply RC_end; exact Hend|]. split; [lia|]. split; [constructor|].
      rewrite ?app_nil_r. replace (N.max (kb * B) (lenN t1)) with (kb * B) by lia. exact Hp.
    + set (a1 := 0 + lenN t1) in *.
      assert (Hhead : kb * B <= ffp a1).
      { rewrite <- Hcur, Hm1. apply (H3 delivered_head). rewrite <- Hm2. discriminate. }
      assert (Hb : kb * B = ffp a1) by (apply (H2 boundary_is_ffp); [exact HA | exact Hhead]).
      assert (Hlow : ffp a1 + 7 <= a1 + lenN t2).
      { inversion Hes2 as [|a0 p0 xs0 e pxs0 t' He Hrest]; subst.
        pose proof (enc_any_ffp_lt _ _ _ _ _ He). rewrite lenN_app. lia. }
      assert (Hat_a : atpos S (rdat S (a1 / B) (a1 mod B)) a1).
      { pose proof (N.div_mod a1 B) as Hdm. pose proof (H2 StreamProofs.mod_lt_B a1) as Hm.
        exists (a1 / B), (a1 mod B). repeat split; lia. }
      set (fr_a := rdat S (a1 / B) (a1 mod B)) in *.
      assert (Hrf : rframe fr_a = rframe (rdat S kb 0)).
      { apply (H3 at_pos_pad S fr_a a1 kb 0 Hok Hat_a);
          [unfold first_frame_pos in Hb; lia | lia | exact Hblk]. }
      assert (Hpend : pend S (mkRR (rdat S kb 0) buf0 false) a1 0).
      { split; [reflexivity|]. split.
        - cbn [rr_fr]. rewrite (H3 bpos_rd_at S kb 0 Hblk). lia.
        - exists fr_a. split; [exact Hat_a|]. intros fuel. cbn [Nat.add rr_buf].
          apply (gonext_cong P). symmetry. exact Hrf. }
      destruct (run_any a1 _ t2 Hes2 S t1 z (mkRR (rdat S kb 0) buf0 false) 0%nat g Hok)
        as (rrs & rrf & Hlen & Hrd & Htr & Hend).
      { rewrite HS, <- app_assoc. reflexivity. }
      { unfold a1. lia. }
      { exact Hpend. }
      { lia. }
      exists rrs, (cb_total ((p, xs) :: pxs2')), rrf.
      split; [reflexivity|]. split; [exact Hm1|]. split; [exact Hm2|]. split; [exact Hlen|].
      split; [exact Hrd|]. split; [rewrite flat_map_app, app_length; pose proof (cb_total_le ((p, xs) :: pxs2')); lia|].
      split; [exact Htr|]. rewrite lenN_app.
      replace (N.max (kb * B) (lenN t1 + lenN t2)) with (a1 + lenN t2) by (unfold a1 in *; lia).
      exact Hend.
  - subst t1. rewrite !lenN_app in *.
    destruct (run_tail (Datatypes.S (length xs2)) (kb * B) xs2 e2 (TL_enc _ _ _ _ Hrel) ltac:(lia)
                S (t1' ++ e1) (t2 ++ zerosN z) (rdat S kb 0) buf0 g Hok Hat_b)
      as (rr2 & j & Hpend & Hj & Hcont).
    { rewrite HS, <- !app_assoc. reflexivity. }
    { rewrite lenN_app. lia. }
    { lia. }
    replace (kb * B + lenN e2) with (0 + (lenN t1' + (lenN e1 + lenN e2))) in Hpend by lia.
    destruct (run_any _ _ t2 Hes2 S (t1' ++ e1 ++ e2) z rr2 j g Hok)
      as (rrs & rrf & Hlen & Hrd & Htr & Hend).
    { rewrite HS, <- !app_assoc. reflexivity. }
    { rewrite !lenN_app. lia. }
    { exact Hpend. }
    { lia. }
    exists rrs, (cbad xs2 + cb_total pxs2)%nat, rrf.
    split; [reflexivity|]. split; [exact Hm1|]. split; [exact Hm2|]. split; [exact Hlen|].
    split; [apply Hcont; exact Hrd|].
    split; [rewrite flat_map_app, app_length; pose proof (cbad_le xs2); pose proof (cb_total_le pxs2); lia|].
    split; [exact Htr|].
    replace (N.max (kb * B) (lenN t1' + (lenN e1 + lenN e2) + lenN t2))
      with (0 + (lenN t1' + (lenN e1 + lenN e2)) + lenN t2) by lia.
    exact Hend.
Qed.

End Stream.

(* ---------- building damaged streams; ok_sts on lists of known shape ---------- *)
Section Shapes.
Variable P : params.
Hypothesis HBS_lo : 7 < BS P.
Hypothesis HBS_hi : BS P <= 65542.
Hypothesis Hcrc : forall t p, crcf P t p < 2 ^ 32.
Local Notation H3 f := (f P HBS_lo HBS_hi Hcrc) (only parsing).

(* an intact stream is a special case *)
Lemma encs_rel_any a es t :
  encs_rel P a es t ->
  exists pxs, encs_any P a pxs t /\ map fst pxs = es /\ forallb (intact P) pxs = true.
Proof.
  induction 1 as [a | a p ps e k t He Hes (pxs & Hany & Hmap & Hall)].
  - exists []. split; [constructor|]. split; reflexivity.
  - destruct (H3 enc_rel_any _ _ _ _ _ He) as (xs & Hx & Hgood & _).
    exists ((p, xs) :: pxs). split; [econstructor; eassumption|].
    cbn [map fst forallb]. rewrite Hmap, Hall. unfold intact at 1. cbn [snd]. rewrite Hgood.
    split; reflexivity.
Qed.

Lemma encs_any_app a pxs1 t1 :
  encs_any P a pxs1 t1 -> forall pxs2 t2,
  encs_any P (a + lenN t1) pxs2 t2 -> encs_any P a (pxs1 ++ pxs2) (t1 ++ t2).
Proof.
  induction 1 as [a | a p xs e pxs t He Hes IH]; intros pxs2 t2 H2'.
  - rewrite (@lenN_nil byte), N.add_0_r in H2'. exact H2'.
  - cbn [app]. rewrite <- app_assoc. econstructor; [exact He|]. apply IH.
    rewrite lenN_app in H2'. replace (a + lenN e + lenN t) with (a + (lenN e + lenN t)) by lia.
    exact H2'.
Qed.

Lemma ok_sts_app pxs1 : forall a pxs2,
  ok_sts P a (pxs1 ++ pxs2) = ok_sts P a pxs1 ++ ok_sts P (cursor_after P a (map fst pxs1)) pxs2.
Proof.
  induction pxs1 as [|px pxs1 IH]; intros a pxs2; cbn [app ok_sts map].
  - rewrite (cursor_after_nil P HBS_lo HBS_hi). reflexivity.
  - rewrite (H3 cursor_after_cons), IH. destruct (intact P px); reflexivity.
Qed.

Lemma ok_sts_all pxs : forall a,
  forallb (intact P) pxs = true -> ok_sts P a pxs = starts P a (map fst pxs).
Proof.
  induction pxs as [|px pxs IH]; intros a Hall; cbn [ok_sts map starts]; [reflexivity|].
  cbn [forallb] in Hall. apply andb_true_iff in Hall as [Hx Hall]. rewrite Hx, IH by exact Hall.
  reflexivity.
Qed.
(* conversely: an entry none of whose frames is damaged is byte for byte what the writer
   emitted (so T' differs from the intact stream only inside the damaged frames) *)
Lemma good_frame_bytes a f l p x :
  frame_for P a f l p x -> fs_good P x = true ->
  fs_bytes x = frame_bytes P (frame_type f l) (takeN (chunk_of P a p) p).
Proof.
  intros (Ht & Hc4 & Hl & Hg) Hgood. rewrite (frame_bytes_dframe P). unfold fs_bytes.
  unfold fs_good in Hgood. apply N.eqb_eq in Hgood.
  rewrite <- (Hg ltac:(unfold fs_good; now apply N.eqb_eq)), <- Ht, Hgood.
  rewrite (le_enc_dec_n 4 (fs_c4 x)) by exact Hc4. reflexivity.
Qed.

Lemma enc_any_good_rel a f p xs e :
  enc_any P a f p xs e -> forallb (fs_good P) xs = true -> enc_rel P a f p e (length xs).
Proof.
  induction 1 as [a f p x Hd Hff | a f p x xs e Hd Hff Hr IH]; intros Hall;
    cbn [forallb] in Hall; apply andb_true_iff in Hall as [Hgx Hall];
    rewrite (good_frame_bytes _ _ _ _ _ Hff Hgx); cbn [length].
  - apply ER_last. exact Hd.
  - apply ER_more; [exact Hd | apply IH; exact Hall].
Qed.

Lemma encs_any_good_rel a pxs t :
  encs_any P a pxs t -> forallb (intact P) pxs = true -> encs_rel P a (map fst pxs) t.
Proof.
  induction 1 as [a | a p xs e pxs t He Hes IH]; intros Hall; cbn [map fst].
  - constructor.
  - cbn [forallb] in Hall. apply andb_true_iff in Hall as [Hx Hall].
    econstructor; [apply (enc_any_good_rel _ _ _ _ _ He Hx) | apply IH; exact Hall].
Qed.
End Shapes.

(* ====================================================================== *)
(* Part 2. The rolling files                                               *)
(* ====================================================================== *)

(* the entries of E (aligned with pxs) all of whose frames are intact *)
Definition ok_entries (P : params) (pxs : list (bytes * list fspecD)) (E : list entry) : list entry :=
  map snd (filter (fun y : (bytes * list fspecD) * entry => intact P (fst y)) (combine pxs E)).

Lemma ok_entries_ser P pxs : forall E,
  map fst pxs = map entry_ser E ->
  map fst (filter (intact P) pxs) = map entry_ser (ok_entries P pxs E).
Proof.
  unfold ok_entries.
  induction pxs as [|px pxs IH]; intros [|e E] H; cbn [map] in H; try discriminate;
    cbn [combine filter map fst]; [reflexivity|].
  injection H as Hx Hr. destruct (intact P px); cbn [map snd fst]; rewrite (IH E Hr); [|reflexivity].
  rewrite Hx. reflexivity.
Qed.

Lemma ok_entries_Forall P (Q : entry -> Prop) pxs : forall E,
  Forall Q E -> Forall Q (ok_entries P pxs E).
Proof.
  unfold ok_entries.
  induction pxs as [|px pxs IH]; intros [|e E] H; cbn [combine filter map]; try constructor.
  inversion H as [|e0 E0 He HE]; subst.
  cbn [fst]. destruct (intact P px); cbn [map snd]; [constructor; [exact He|]|]; apply IH; exact HE.
Qed.

(* E_ok is a sub-list of E *)
Lemma sublist_nil_l {A} (l : list A) : sublist [] l.
Proof. induction l; constructor; assumption. Qed.

Lemma ok_entries_sublist P pxs : forall E, sublist (ok_entries P pxs E) E.
Proof.
  unfold ok_entries.
  induction pxs as [|px pxs IH]; intros [|e E]; cbn [combine filter map]; try apply sublist_nil_l.
  cbn [fst]. destruct (intact P px); cbn [map snd]; constructor; apply IH.
Qed.

Lemma filter_length_le {A} (h : A -> bool) l : (length (filter h l) <= length l)%nat.
Proof. induction l as [|x l IH]; cbn [filter length]; [lia|]. destruct (h x); cbn [length]; lia. Qed.

(* the damaged stream has the length of the intact one *)
Lemma encs_any_len P (HBS_lo : 7 < BS P) (HBS_hi : BS P <= 65542)
      (Hcrc : forall t p, crcf P t p < 2 ^ 32) a pxs t :
  encs_any P a pxs t -> lenN t = lenN (encs_of P a (map fst pxs)).
Proof.
  intros H. destruct (encs_any_orig P HBS_lo HBS_hi Hcrc _ _ _ H) as (t0 & Hrel & Hlen).
  rewrite (encs_rel_encs_of P HBS_lo HBS_hi Hcrc _ _ _ Hrel). symmetry. exact Hlen.
Qed.

(* ---------- lists ---------- *)
Lemma app_inv_len {A} (l1 : list A) : forall l1' l2 l2',
  l1 ++ l2 = l1' ++ l2' -> length l1 = length l1' -> l1 = l1' /\ l2 = l2'.
Proof.
  induction l1 as [|x l1 IH]; intros [|y l1'] l2 l2' H Hl; cbn [length] in Hl; try discriminate.
  - split; [reflexivity | exact H].
  - cbn [app] in H. injection H as -> H. destruct (IH _ _ _ H ltac:(lia)) as [-> ->].
    split; reflexivity.
Qed.

Lemma split_at_len {A} (l : list A) m : (m <= length l)%nat ->
  exists l1 l2, l = l1 ++ l2 /\ length l1 = m.
Proof.
  intros H. exists (firstn m l), (skipn m l). split; [symmetry; apply firstn_skipn|].
  apply firstn_length_le. exact H.
Qed.

Lemma ok_entries_all P pxs : forall E,
  forallb (intact P) pxs = true -> length pxs = length E -> ok_entries P pxs E = E.
Proof.
  unfold ok_entries.
  induction pxs as [|px pxs IH]; intros [|e E] Hall Hl; cbn [length] in Hl; try discriminate;
    cbn [combine filter map fst]; [reflexivity|].
  cbn [forallb] in Hall. apply andb_true_iff in Hall as [Hx Hall]. rewrite Hx.
  cbn [map snd]. f_equal. apply IH; [exact Hall | lia].
Qed.

Lemma ok_entries_app P pxs1 : forall E1 pxs2 E2,
  length pxs1 = length E1 ->
  ok_entries P (pxs1 ++ pxs2) (E1 ++ E2) = ok_entries P pxs1 E1 ++ ok_entries P pxs2 E2.
Proof.
  unfold ok_entries.
  induction pxs1 as [|px pxs1 IH]; intros [|e E1] pxs2 E2 Hl; cbn [length] in Hl; try discriminate;
    cbn [app combine filter map fst]; [reflexivity|].
  destruct (intact P px); cbn [map snd app]; rewrite IH by lia; reflexivity.
Qed.

Section Files.
Variable P : params.
Hypothesis HBS_lo : 7 < BS P.
Hypothesis HBS_hi : BS P <= 65542.
Hypothesis HNB : 1 <= NB P.
Hypothesis Hcrc : forall t p, crcf P t p < 2 ^ 32.
Local Notation B := (BS P).
Local Notation FB := (FILE_BYTES P).
Local Notation ffp := (first_frame_pos P).
Local Notation readsC := (reads_trc P (vr_next P) vr_block).
Local Notation readsFc := (reads_trc P (rd_next P) rd_block).
Local Notation H3 f := (f P HBS_lo HBS_hi Hcrc) (only parsing).
Local Notation H2 f := (f P HBS_lo HBS_hi) (only parsing).
Local Notation HN f := (f P HBS_lo HBS_hi HNB) (only parsing).

Section Dir.
Variable fs : fsT.
Variable lo : N.
Variable n : nat.
Local Notation files := (iota lo (Datatypes.S n)).
Local Notation cur := (lo + N.of_nat n).
Hypothesis Hfull : forall f, In f files ->
  exists b, fs_get fs (filename f) = Some (FFile b) /\ lenN b = FB.

Local Notation St := (stream_of fs files).
Local Notation rsim := (rd_rel P fs files).
Local Notation rrsim := (rr_sim rreaderS vecr rsim).
Local Notation HD f := (f P HBS_lo HBS_hi HNB fs lo n Hfull) (only parsing).

(* what `open` builds from the kept files: the files `tags` the replayed entries are
   attributed to (sts: their (start cursor, first-frame position) in the stream numbered from
   file `base`), and the writer w0 made of the final reader, which stopped at the end e_end of
   the log.  This is OpenReplay.kept_spec with sts and e_end as parameters. *)
Definition dmg_spec (base : N) (w0 : rwriter) (tags : list N) (sts : list (N * N)) (e_end : N) : Prop :=
  length tags = length sts /\
  Forall2 (fun f s => (f - base) * FB <= snd s) tags sts /\
  StronglySorted N.le tags /\
  Forall (fun f => lo <= f /\ f <= w_file w0) tags /\
  w_files w0 = files /\ lo <= w_file w0 /\ w_file w0 <= cur /\
  (((w_file w0 - base) * FB + w_off w0 = ffp e_end /\ w_off w0 < FB) \/
   ((w_file w0 - base) * FB + w_off w0 = e_end /\ w_file w0 = cur /\
    FB < w_off w0 + 7 /\ w_off w0 <= FB)) /\
  w_pending w0 = [] /\ c_fs (w_ctx w0) = fs /\ c_plan (w_ctx w0) = None.

(* cf. OpenReplay.kept_spec_last *)
Lemma dmg_spec_last base w0 tags sts e_end woff :
  base <= lo -> dmg_spec base w0 tags sts e_end ->
  e_end = (cur - base) * FB + woff -> woff <= FB ->
  w_file w0 = cur /\ w_off w0 = norm_off P woff.
Proof.
  intros Hbase (_ & _ & _ & _ & _ & Hlo & Hcur & Hpos & _) He Hw.
  apply (HN final_pos_norm base lo cur (w_file w0) (w_off w0) e_end woff); assumption.
Qed.

(* the writer in the terms of the writer that was dropped: when the log reaches into the last
   file (always the case when a clean writer wrote it), or there is one file, open's writer is
   in the last file at the normalised offset (cf. OpenReplay.reach_last / kept_spec_last) *)
Lemma dmg_spec_reach_last base w0 tags sts (T' : bytes) z :
  base <= lo ->
  lenN (T' ++ zerosN z) = (cur - base + 1) * FB ->
  (cur - base) * FB <= lenN T' \/ n = 0%nat ->
  dmg_spec base w0 tags sts (N.max ((lo - base) * FB) (lenN T')) ->
  w_file w0 = cur /\
  w_off w0 = norm_off P (N.max ((lo - base) * FB) (lenN T') - (cur - base) * FB).
Proof.
  intros Hbase HlenS Hreach Hspec.
  assert (HT : lenN T' <= (cur - base + 1) * FB).
  { pose proof HlenS as HL. rewrite lenN_app in HL. lia. }
  assert (Hb : (lo - base) * FB <= (cur - base) * FB) by (apply N.mul_le_mono_r; lia).
  assert (Hb1 : (cur - base + 1) * FB = (cur - base) * FB + FB) by lia.
  apply (dmg_spec_last base w0 tags sts _ _ Hbase Hspec).
  - destruct Hreach as [H|H]; [lia|].
    assert (E : cur = lo) by lia. rewrite E in *. lia.
  - destruct Hreach as [H|H]; [lia|].
    assert (E : cur = lo) by lia. rewrite E in *. lia.
Qed.

Section Kept.
Variables (base : N) (S_all : bytes).
Hypothesis Hbase : base <= lo.
Hypothesis Hlist : list_wal_numbers fs = files.
Hypothesis HSt : St = dropN ((lo - base) * FB) S_all.
Hypothesis HlenS : lenN S_all = (cur - base + 1) * FB.

Local Notation b := ((lo - base) * FB).
Local Notation kb := ((lo - base) * NB P).

(* any vecr trace (with Corruption steps) from the boundary that stops at the end of the log,
   to the rolling files (cf. OpenReplay.kept_files_trace, TornFile.files_of_trace) *)
Lemma trace_to_files g rrs ds sts c rrfV e_end :
  length rrs = length ds ->
  readsC g (mkRR (rd_at P S_all kb 0) [] false) (combine rrs ds) c rrfV ->
  tr_ok P S_all rrs sts -> at_end P S_all (rr_fr rrfV) e_end ->
  exists c0 rd lF rrfF,
    rd_open P (ctx_init fs None) = (c0, Ok rd) /\
    readsFc g (rr_open rreaderS rd) lF c rrfF /\
    map snd lF = ds /\
    dmg_spec base (rd_into_writer P (fr_rd (rr_fr rrfF)) (fr_cursor (rr_fr rrfF))) (tags_of lF)
             sts e_end.
Proof.
  intros Hlen HrdV Htr Hend.
  assert (Hkb : kb * B = b) by (rewrite (HN FB_eq); lia).
  assert (HlenSt : lenN St + kb * B = lenN S_all).
  { rewrite (HD lenN_St), HlenS, Hkb.
    replace (lo + N.of_nat n - base + 1) with ((N.of_nat n + 1) + (lo - base)) by lia. lia. }
  assert (HFB : B <= FB) by (rewrite (HN FB_eq); nia).
  assert (Hblk : (kb + 1) * B <= lenN S_all).
  { rewrite <- HlenSt, (HD lenN_St). nia. }
  destruct (rd_open_sim P ltac:(lia) HNB fs files (iota_sorted _ _) Hfull (ctx_init fs None))
    as (c0 & rd & Hopen & Hrel); [split; reflexivity | exact Hlist | discriminate |].
  pose proof (rr_open_sim rreaderS vecr rsim rd _ Hrel) as Hsim0.
  assert (Hstart : rr_open vecr (vec_at P fs files 0) = mkRR (rd_at P S_all kb 0) [] false).
  { unfold rr_open, fr_open. f_equal.
    change (mkFR (vec_at P fs files 0) 0 false) with (rd_at P St 0 0).
    rewrite HSt. rewrite <- Hkb, (rd_at_drop P HBS_lo HBS_hi HNB Hcrc). f_equal. lia. }
  rewrite Hstart in Hsim0.
  destruct (HD reads_trc_FV g _ _ _ _ HrdV _ Hsim0) as (lF & rrfF & HrdF & Hall & Hfin).
  pose proof (Forall2_length' _ _ _ Hall) as HlenF.
  rewrite combine_length, Hlen, Nat.min_id in HlenF.
  pose proof (Forall2_length' _ _ _ Htr) as HlenT.
  exists c0, rd, lF, rrfF.
  split; [exact Hopen|]. split; [exact HrdF|].
  split.
  { rewrite <- (map_snd_combine rrs ds) by exact Hlen.
    apply (map_snd_Forall2 _ _ _ Hall). }
  unfold dmg_spec.
  set (w0 := rd_into_writer P (fr_rd (rr_fr rrfF)) (fr_cursor (rr_fr rrfF))).
  destruct (H2 reads_trc_rest g _ _ _ _ HrdV) as (Hrest_fin & Hrest_all & Hrest_sorted).
  (* the final reader *)
  assert (Hbp : kb * B <= bpos P S_all (fr_rd (rr_fr rrfV))).
  { cbn [rr_fr] in Hrest_fin. pose proof (H3 bpos_rd_at S_all kb 0 Hblk) as Hb0.
    unfold bpos in *. lia. }
  destruct (H3 at_end_kc S_all _ _ kb Hend) as (k & c1 & Hfr & Hkk & Hkblk & Hc & Hcase);
    [exact Hbp|].
  pose proof Hfin as Hfin0.
  destruct Hfin as ((Hrfin & Hcur & _) & _ & _).
  destruct (HD rd_rel_idx _ _ Hrfin) as (Hcok & Hfl & i & j & Hfile & Hi & Hj & Hid & Hl).
  rewrite Hfr in Hl, Hcur. unfold rd_at in Hl, Hcur. cbn [fr_rd vr_rest fr_cursor] in Hl, Hcur.
  rewrite lenN_dropN in Hl.
  assert (Hk : k = kb + i * NB P + j).
  { assert (E : k * B = (kb + i * NB P + j) * B) by lia.
    apply N.mul_cancel_r in E; lia. }
  assert (Hwfile : w_file w0 = lo + i) by exact Hfile.
  assert (Hwoff : w_off w0 = j * B + c1).
  { unfold w0, rd_into_writer. cbn [w_off]. rewrite Hid, Hcur. reflexivity. }
  assert (Hpos : (w_file w0 - base) * FB + w_off w0 = k * B + c1).
  { rewrite Hwfile, Hwoff, Hk. replace (lo + i - base) with ((lo - base) + i) by lia.
    rewrite (HN FB_eq). lia. }
  split; [rewrite tags_of_length, HlenF, <- Hlen; exact HlenT|].
  split.
  { apply Forall2_map_l'.
    eapply Forall2_trans'; [|exact Hall|apply Forall2_combine_l; [|exact Htr]].
    - cbn beta. intros x y s [Hxy _] Hys.
      pose proof (sim_tag_bpos P HBS_lo HBS_hi HNB Hcrc fs lo n Hfull S_all base kb _ _ Hxy Hbase Hkb HlenSt).
      lia.
    - exact Hlen. }
  split.
  { apply StronglySorted_map.
    eapply StronglySorted_Forall2; [|exact Hall|exact Hrest_sorted].
    cbn beta. intros x y x' y' [Hxy _] [Hxy' _] Hle. eapply (HD sim_tag_le); eassumption. }
  split.
  { apply Forall_map.
    eapply Forall2_Forall_l; [|exact Hall|exact Hrest_all].
    cbn beta. intros x y [Hxy _] [_ Hle]. split.
    - apply (HD sim_tag_lo _ _ Hxy).
    - change (w_file w0) with (tag_of rrfF).
      eapply (HD sim_tag_le); [exact Hxy|exact Hfin0|exact Hle]. }
  split; [exact Hfl|]. split; [lia|]. split; [lia|].
  assert (HlenS' : lenN S_all = kb * B + (N.of_nat n + 1) * (NB P * B)).
  { rewrite <- HlenSt, (HD lenN_St), (HN FB_eq). lia. }
  split.
  { destruct Hcase as [(Hp & Hc7) | (Hp & Hc7 & Hlast)].
    - left. split; [lia|]. rewrite Hwoff, (HN FB_eq).
      assert ((j + 1) * B <= NB P * B) by (apply N.mul_le_mono_r; lia). lia.
    - right.
      assert (Hin : i = N.of_nat n /\ j + 1 = NB P).
      { rewrite HlenS', Hk in Hlast.
        assert (E1 : (N.of_nat n + 1) * NB P < i * NB P + j + 2).
        { apply (H2 TornProofs.mulB_lt_inv). lia. }
        destruct (N.eq_dec i (N.of_nat n)) as [Ei|Ni].
        - subst i. split; [reflexivity|]. lia.
        - exfalso.
          assert (H : (i + 1) * NB P <= N.of_nat n * NB P) by (apply N.mul_le_mono_r; lia).
          lia. }
      destruct Hin as [-> Hj1].
      split; [lia|]. split; [lia|]. rewrite Hwoff, (HN FB_eq).
      replace (NB P) with (j + 1) by exact Hj1. lia. }
  split; [reflexivity|]. destruct Hcok as [Hcfs Hcplan].
  split; [exact Hcfs | exact Hcplan].
Qed.

(* ... and to `open` *)
Lemma open_of_trace_end F rrs ds sts c rrfV e_end Ds pol hint :
  L_IO P = false ->
  length rrs = length ds ->
  readsC F (mkRR (rd_at P S_all kb 0) [] false) (combine rrs ds) c rrfV ->
  tr_ok P S_all rrs sts -> at_end P S_all (rr_fr rrfV) e_end ->
  ds = map entry_ser Ds -> Forall wf_entry Ds -> (length ds + c < F)%nat ->
  exists w0 tags,
    dmg_spec base w0 tags sts e_end /\
    match replay_entries [] (combine tags Ds) with
    | Some qs => open P fs None pol hint = open_finish P w0 qs pol hint
    | None => exists c', open P fs None pol hint = OpenCorruption c'
    end.
Proof.
  intros Hio Hlen HrdV Htr Hend Hds Hwf HF.
  destruct (trace_to_files F rrs ds sts c rrfV e_end Hlen HrdV Htr Hend)
    as (c0 & rd & lF & rrfF & Hopen & HrdF & Hsnd & Hspec).
  set (w0 := rd_into_writer P (fr_rd (rr_fr rrfF)) (fr_cursor (rr_fr rrfF))) in *.
  exists w0, (tags_of lF). split; [exact Hspec|].
  assert (Hdeser : Forall2 (fun x e0 => entry_deser (snd x) = Some e0) lF Ds).
  { apply deser_of_map_snd; [rewrite Hsnd; exact Hds | exact Hwf]. }
  assert (HlF : length lF = length ds) by (rewrite <- Hsnd, map_length; reflexivity).
  pose proof (replay_loop_fold_c P F _ _ _ _ HrdF Ds Hdeser F [] ltac:(lia)) as Hfold.
  destruct (replay_entries [] (combine (tags_of lF) Ds)) as [qs|].
  - apply (HD open_fuel_elim F); [exact Hio | | apply open_finish_not_fuel].
    unfold open_with. rewrite Hopen, Hfold. reflexivity.
  - destruct Hfold as [rr' Hfold]. exists (reader_ctx rr').
    apply (HD open_fuel_elim F); [exact Hio | | discriminate].
    unfold open_with. rewrite Hopen, Hfold. reflexivity.
Qed.

End Kept.

(* ---------- (2) open on the kept files holding a damaged stream ---------- *)
(* Ghost setting as in OpenReplay: the WAL is one byte stream numbered from file `base`; E_all
   are the (well-formed) entries ever written; the directory holds the full-size files
   lo..lo+n, which are the tail, from the block boundary b = (lo - base) * FILE, of T' ++ zeros,
   where T' is the stream the writer produced for E_all (T = encs_of 0 (map entry_ser E_all))
   with any number of frames damaged in place: encs_any 0 pxs T', pxs giving for every entry
   its payload and its frames as found in the files. *)
Theorem open_damaged base E_all pxs T' z pol hint :
  L_IO P = false ->
  base <= lo ->
  list_wal_numbers fs = files ->
  Forall wf_entry E_all ->
  map fst pxs = map entry_ser E_all ->
  encs_any P 0 pxs T' ->
  St = dropN ((lo - base) * FB) (T' ++ zerosN z) ->
  lenN (T' ++ zerosN z) = (cur - base + 1) * FB ->
  let b := (lo - base) * FB in
  exists w0 tags E_pre E_suf pxs1 pxs2,
    E_all = E_pre ++ E_suf /\ pxs = pxs1 ++ pxs2 /\
    map fst pxs1 = map entry_ser E_pre /\ map fst pxs2 = map entry_ser E_suf /\
    map entry_ser E_pre = skipped_before P b 0 (map entry_ser E_all) /\
    map entry_ser E_suf = delivered_from P b 0 (map entry_ser E_all) /\
    lenN T' = lenN (encs_of P 0 (map entry_ser E_all)) /\
    let E_ok := ok_entries P pxs2 E_suf in
    dmg_spec base w0 tags (ok_sts P (cursor_after P 0 (map entry_ser E_pre)) pxs2)
             (N.max b (lenN T')) /\
    match replay_entries [] (combine tags E_ok) with
    | Some qs => open P fs None pol hint = open_finish P w0 qs pol hint
    | None => exists c, open P fs None pol hint = OpenCorruption c
    end.
Proof.
  intros Hio Hbase Hlist Hwf Hmap Hany HSt HlenS b.
  set (S_all := T' ++ zerosN z) in *.
  assert (Hkb : (lo - base) * NB P * B = b) by (unfold b; rewrite (HN FB_eq); lia).
  assert (Hok : stream_ok P S_all).
  { exists ((cur - base + 1) * NB P). rewrite HlenS, (HN FB_eq). lia. }
  assert (Hblk : ((lo - base) * NB P + 1) * B <= lenN S_all).
  { rewrite HlenS, (HN FB_eq).
    replace (cur - base + 1) with ((lo - base) + (N.of_nat n + 1)) by lia. nia. }
  set (F := (length E_all + length (flat_map snd pxs) + 2)%nat).
  destruct (read_damaged_tr P HBS_lo HBS_hi Hcrc pxs T' S_all z ((lo - base) * NB P) [] F Hany eq_refl
              Hok Hblk ltac:(unfold F; lia))
    as (pxs1 & pxs2 & rrs & c & rrfV & Hpxs & Hm1 & Hm2 & Hlen & HrdV & Hc & Htr & Hend).
  rewrite Hkb in Hm1, Hm2, Hend. rewrite Hmap in Hm1, Hm2.
  assert (Hsplit : map entry_ser E_all = map fst pxs1 ++ map fst pxs2)
    by (rewrite <- Hmap, Hpxs, map_app; reflexivity).
  destruct (map_app_inv entry_ser E_all _ _ Hsplit) as (E_pre & E_suf & HE & Hpre & Hsuf).
  assert (Hwf_suf : Forall wf_entry E_suf).
  { rewrite HE in Hwf. apply Forall_app in Hwf. apply Hwf. }
  assert (HF : (length (map fst (filter (intact P) pxs2)) + c < F)%nat).
  { rewrite map_length. pose proof (filter_length_le (intact P) pxs2) as Hfl.
    assert (Hl : length pxs = length E_all).
    { apply (f_equal (@length bytes)) in Hmap. rewrite !map_length in Hmap. exact Hmap. }
    rewrite Hpxs, app_length in Hl. unfold F. lia. }
  rewrite <- Hpre in Htr.
  assert (Hlen' : length rrs = length (map fst (filter (intact P) pxs2)))
    by (rewrite map_length; exact Hlen).
  destruct (open_of_trace_end base S_all Hbase Hlist HSt HlenS F rrs _ _ c rrfV _
              (ok_entries P pxs2 E_suf) pol hint Hio Hlen' HrdV Htr Hend
              (ok_entries_ser P pxs2 E_suf (eq_sym Hsuf))
              (ok_entries_Forall P wf_entry pxs2 E_suf Hwf_suf) HF)
    as (w0 & tags & Hspec & Hres).
  exists w0, tags, E_pre, E_suf, pxs1, pxs2.
  split; [exact HE|]. split; [exact Hpxs|]. split; [symmetry; exact Hpre|].
  split; [symmetry; exact Hsuf|]. split; [rewrite Hpre; exact Hm1|].
  split; [rewrite Hsuf; exact Hm2|].
  split; [rewrite <- Hmap; apply (encs_any_len P HBS_lo HBS_hi Hcrc); exact Hany|].
  cbv zeta. split; [exact Hspec | exact Hres].
Qed.

(* ---------- (3) one damaged entry ---------- *)
(* E_all = E1 ++ X :: E2; the stream is the one the writer produced (t1 ++ ex ++ t2) with ONE
   frame of X damaged (ed instead of ex, DamageProofs.enc_dmg), and X is among the entries
   delivered from the boundary (its first frame lies in the kept files): open replays E_suf
   without X. *)
Theorem open_one_damaged base E1 X E2 t1 ex ed k t2 z pol hint :
  L_IO P = false ->
  base <= lo ->
  list_wal_numbers fs = files ->
  Forall wf_entry (E1 ++ X :: E2) ->
  encs_rel P 0 (map entry_ser E1) t1 ->
  enc_dmg P (lenN t1) true (entry_ser X) ex ed k ->
  encs_rel P (lenN t1 + lenN ex) (map entry_ser E2) t2 ->
  St = dropN ((lo - base) * FB) ((t1 ++ ed ++ t2) ++ zerosN z) ->
  lenN ((t1 ++ ed ++ t2) ++ zerosN z) = (cur - base + 1) * FB ->
  let b := (lo - base) * FB in
  b <= ffp (lenN t1) ->
  exists w0 tags E1_pre E1_suf,
    E1 = E1_pre ++ E1_suf /\
    map entry_ser E1_pre = skipped_before P b 0 (map entry_ser (E1 ++ X :: E2)) /\
    map entry_ser (E1_suf ++ X :: E2) = delivered_from P b 0 (map entry_ser (E1 ++ X :: E2)) /\
    lenN (t1 ++ ed ++ t2) = lenN (t1 ++ ex ++ t2) /\
    dmg_spec base w0 tags
      (starts P (cursor_after P 0 (map entry_ser E1_pre)) (map entry_ser E1_suf) ++
       starts P (lenN t1 + lenN ex) (map entry_ser E2))
      (N.max b (lenN (t1 ++ ex ++ t2))) /\
    match replay_entries [] (combine tags (E1_suf ++ E2)) with
    | Some qs => open P fs None pol hint = open_finish P w0 qs pol hint
    | None => exists c, open P fs None pol hint = OpenCorruption c
    end.
Proof.
  intros Hio Hbase Hlist Hwf He1 Hdmg He2 HSt HlenS b Hb.
  destruct (encs_rel_any P HBS_lo HBS_hi Hcrc _ _ _ He1) as (pa & Hpa & Hma & Hia).
  destruct (H3 enc_dmg_any _ _ _ _ _ _ Hdmg) as (xsd & Hxd & Hbadx & _ & _).
  pose proof (H3 enc_dmg_len _ _ _ _ _ _ Hdmg) as Hled.
  pose proof (enc_dmg_orig P _ _ _ _ _ _ Hdmg) as Hrelx.
  destruct (encs_rel_any P HBS_lo HBS_hi Hcrc _ _ _ He2) as (pb & Hpb & Hmb & Hib).
  set (pxs := pa ++ (entry_ser X, xsd) :: pb).
  assert (Hany : encs_any P 0 pxs (t1 ++ ed ++ t2)).
  { apply (H3 encs_any_app 0 pa t1 Hpa). econstructor; [rewrite N.add_0_l; exact Hxd|].
    rewrite N.add_0_l, Hled. exact Hpb. }
  assert (Hmap : map fst pxs = map entry_ser (E1 ++ X :: E2)).
  { unfold pxs. rewrite !map_app. cbn [map fst]. rewrite Hma, Hmb. reflexivity. }
  pose proof (open_damaged base (E1 ++ X :: E2) pxs (t1 ++ ed ++ t2) z pol hint Hio Hbase Hlist
                Hwf Hmap Hany HSt HlenS) as Hmain.
  cbv zeta in Hmain. fold b in Hmain.
  destruct Hmain as (w0 & tags & E_pre & E_suf & pxs1 & pxs2 & HE & Hpxs & Hm1 & Hm2 & Hpre & Hsuf &
                     HlenT & Hspec & Hres).
  (* the split of E1 at the boundary *)
  assert (Hcur1 : cursor_after P 0 (map entry_ser E1) = 0 + lenN t1)
    by apply (H3 cursor_after_rel _ _ _ He1).
  destruct (H3 delivered_from_app b (map entry_ser E1) 0 (map entry_ser (X :: E2))) as [Hdf Hsk].
  { rewrite Hcur1, N.add_0_l. exact Hb. }
  rewrite map_app in Hpre, Hsuf. rewrite Hsk in Hpre. rewrite Hdf in Hsuf.
  pose proof (skipped_delivered P b (map entry_ser E1) 0) as Hsd.
  destruct (map_app_inv entry_ser E1 _ _ Hsd) as (E1p & E1s & HE1 & Hp1 & Hs1).
  assert (HlenEp : length E_pre = length E1p).
  { apply (f_equal (@length bytes)) in Hpre. rewrite <- Hp1 in Hpre.
    rewrite !map_length in Hpre. exact Hpre. }
  assert (HEE : E_pre ++ E_suf = E1p ++ (E1s ++ X :: E2)).
  { rewrite <- HE, HE1, <- app_assoc. reflexivity. }
  destruct (app_inv_len _ _ _ _ HEE HlenEp) as [EE1 EE2]. subst E_pre E_suf.
  (* the split of the frames of E1 *)
  assert (Hlpa : length pa = length E1).
  { apply (f_equal (@length bytes)) in Hma. rewrite !map_length in Hma. exact Hma. }
  destruct (split_at_len pa (length E1p)) as (pa1 & pa2 & Hpa12 & Hlpa1).
  { rewrite Hlpa, HE1, app_length. lia. }
  assert (Hlp1 : length pxs1 = length pa1).
  { apply (f_equal (@length bytes)) in Hm1. rewrite !map_length in Hm1. lia. }
  assert (Hpp : pxs1 ++ pxs2 = pa1 ++ (pa2 ++ (entry_ser X, xsd) :: pb)).
  { rewrite <- Hpxs. unfold pxs. rewrite Hpa12, <- app_assoc. reflexivity. }
  destruct (app_inv_len _ _ _ _ Hpp Hlp1) as [EP1 EP2]. subst pxs1 pxs2.
  rewrite Hpa12, forallb_app in Hia. apply andb_true_iff in Hia as [_ Hia2].
  assert (Hma2 : map fst pa2 = map entry_ser E1s).
  { rewrite Hpa12, HE1, !map_app in Hma. apply app_inv_len in Hma; [apply Hma|].
    rewrite !map_length. exact Hlpa1. }
  assert (Hlpa2 : length pa2 = length E1s).
  { apply (f_equal (@length bytes)) in Hma2. rewrite !map_length in Hma2. exact Hma2. }
  assert (Hlpb : length pb = length E2).
  { apply (f_equal (@length bytes)) in Hmb. rewrite !map_length in Hmb. exact Hmb. }
  (* the entries replayed *)
  assert (Hok : ok_entries P (pa2 ++ (entry_ser X, xsd) :: pb) (E1s ++ X :: E2) = E1s ++ E2).
  { rewrite ok_entries_app by exact Hlpa2. rewrite (ok_entries_all P pa2 E1s Hia2 Hlpa2). f_equal.
    unfold ok_entries. cbn [combine filter fst]. unfold intact at 1. cbn [snd]. rewrite Hbadx.
    apply (ok_entries_all P pb E2 Hib Hlpb). }
  (* their positions *)
  assert (Hsts : ok_sts P (cursor_after P 0 (map entry_ser E1p)) (pa2 ++ (entry_ser X, xsd) :: pb) =
                 starts P (cursor_after P 0 (map entry_ser E1p)) (map entry_ser E1s) ++
                 starts P (lenN t1 + lenN ex) (map entry_ser E2)).
  { rewrite (ok_sts_app P HBS_lo HBS_hi Hcrc), (ok_sts_all P pa2 _ Hia2), Hma2. f_equal.
    cbn [ok_sts fst]. unfold intact at 1. cbn [snd]. rewrite Hbadx.
    rewrite (ok_sts_all P pb _ Hib), Hmb.
    rewrite <- (H3 cursor_after_app), <- map_app, <- HE1, Hcur1, N.add_0_l.
    rewrite (H3 enc_rel_enc_of _ _ _ _ Hrelx). reflexivity. }
  assert (HlenTT : lenN (t1 ++ ed ++ t2) = lenN (t1 ++ ex ++ t2))
    by (rewrite !lenN_app, Hled; reflexivity).
  cbv zeta in Hspec, Hres. rewrite Hok in Hres. rewrite Hsts, HlenTT in Hspec.
  exists w0, tags, E1p, E1s.
  split; [exact HE1|]. split; [rewrite map_app, Hsk; exact Hpre|].
  split; [rewrite (map_app entry_ser E1), Hdf; exact Hsuf|].
  split; [exact HlenTT|]. split; [exact Hspec | exact Hres].
Qed.

End Dir.
End Files.

Print Assumptions read_damaged_tr.
Print Assumptions open_damaged.
Print Assumptions open_one_damaged.

(* ---------- a concrete instance ---------- *)
(* The directory of OpenReplay.Example (BS = 16, two blocks per file, files 1..6 kept, base 0)
   with the checksum of the first frame of the third entry (EPosition qb 3, first frame at
   byte 80 = file 2, offset 16) damaged: open replays the entries 1, 3, 4, 5 (entry 0 lies
   before the boundary, entry 2 is damaged).  Note the file attribution of entry 3 (first
   frame at 112, in file 3): it is read by the go_next call that starts just after the
   damaged frame, in file 2, and skips the remaining frame of entry 2 first, so its tag is 2
   (in the undamaged directory it is 3).  This is why dmg_spec only bounds the tags from above
   by the first-frame positions: (tag - base) * FILE <= first frame. *)
Module Example.
Import OpenReplay.Example.
Definition flip (bs : bytes) (i : N) : bytes :=
  takeN i bs ++ match dropN i bs with [] => [] | x :: r => n2b ((b2n x + 1) mod 256) :: r end.
Definition fs_dmg : fsT := fs_put fs_kept (filename 2) (FFile (flip (fcontent fs_kept 2) 16)).
Definition qs_of (fs : fsT) : option queues :=
  match open Px fs None PNothing [] with OpenOk st => Some (s_qs st) | _ => None end.
Definition nthE (i : nat) : entry := nth i E_ex (EPosition qa 0).

Example damaged_dir_replays_intact :
  qs_of fs_dmg = replay_entries [] (combine [1; 2; 5; 6] [nthE 1; nthE 3; nthE 4; nthE 5]) /\
  qs_of fs_kept = replay_entries [] (combine [1; 2; 3; 5; 6] (tl E_ex)).
Proof. vm_compute. split; reflexivity. Qed.
End Example.

Print Assumptions encs_any_good_rel.
Print Assumptions dmg_spec_reach_last.
