(* JRecover5.v — TASK T14 follow-up (2): JRecover4.recover_vcall_setup_at for crash points at or after
   the roll-over of the call.  The only premise on the crash prefix pe is on the TOP file hi of the
   crash image (is_top): the torn data leave a whole block before the end of file hi,
       w_file * FB + w_off + |data of pe| + BS <= (hi + 1) * FB.
   That the data reach the start of file hi is proved (KReach.call_trace_reach); a torn entry that
   spans the boundary of two files is junk that can be entered at the file boundary
   (KWalk/KJunk/JRecoverS4).
   [compile-time rework] now a corollary of JRecover3.recover_vcall_setup_gen (the proof is done once,
   there, for the most general premise). *)
From Coq Require Import Lia ZArith ZifyN ZifyNat ZifyBool List Sorted.
From MRL Require Import Bytes BytesProofs Params Names NamesProofs Frame Record Mem Spec Rolling Log
  Driver Hist NoopProofs SpecRefine RecordProofs StreamProofs PolicyProofs GcProofs GhostLog ReplaySpec
  HandleProofs FileStream ResyncProofs QueueIso RestartInv RestartWrite RestartGc RestartStep
  OpenReplay RestartFinal TornProofs TornFile CrashTrace CrashAtomic
  JInv JGc JStep JunkStream JReopen JRecoverL JRecoverS JRecoverP JRecover JRecoverS2 JRecoverL2
  JCrashShape JRecover2 JRecoverP2 JRecoverPk JRecover3 JRecoverS3 JRecover4 KWalk KJunk KReach JRecoverS4.

Arguments N.add : simpl never.
Arguments N.sub : simpl never.
Arguments N.mul : simpl never.
Arguments N.eqb : simpl never.
Arguments N.ltb : simpl never.
Arguments N.leb : simpl never.
Arguments N.div : simpl never.
Arguments N.modulo : simpl never.
Arguments N.min : simpl never.
Arguments N.max : simpl never.
Arguments N.pow : simpl never.

Section Recover5.
Variable P : params.
Hypothesis HBS_lo : 7 < BS P.
Hypothesis HBS_hi : BS P <= 65542.
Hypothesis HNB : 1 <= NB P.
Hypothesis Hcrc : forall t p, crcf P t p < 2 ^ 32.
Hypothesis HGC : L_GC P = false.
Hypothesis HIO : L_IO P = false.
Hypothesis HSHORT : L_SHORT P = false.
Hypothesis Hnc : no_zero_collision P.

Local Notation B := (BS P).
Local Notation FB := (FILE_BYTES P).
Local Notation ffp := (first_frame_pos P).
Local Notation enc_of := (enc_of P).
Local Notation encs_of := (encs_of P).
Local Notation cursor_after := (cursor_after P).
Local Notation starts := (starts P).
Local Notation ser := (map entry_ser).
Local Notation H3 f := (f P HBS_lo HBS_hi Hcrc) (only parsing).
Local Notation H2 f := (f P HBS_lo HBS_hi) (only parsing).
Local Notation HW f := (f P HBS_lo HBS_hi HNB Hcrc) (only parsing).
Local Notation HN f := (f P HBS_lo HBS_hi HNB) (only parsing).
Local Notation HG f := (f P HBS_lo HBS_hi HNB Hcrc HGC) (only parsing).

Variable PRE0 : bytes.
Variable OLD0 : list entry.
Variable opos0 : list (N * N).
Variable adm0 : N -> Prop.
Variable cmax0 : nat.
Variable rm0 : N.
Hypothesis Hpre0 : pre_ok PRE0 OLD0 opos0.
Hypothesis Hpc0 : pre_cont P PRE0 (ser OLD0) opos0 adm0 cmax0 rm0.
Hypothesis Hrm0 : rm0 <= 7.
Hypothesis Hadm0 : forall m, adm0 (m * NB P).

Local Notation InvJ0 := (InvJ P PRE0 OLD0 opos0).
Local Notation PInvJ0 := (PInvJ P PRE0 OLD0 opos0).
Local Notation jT0 := (jT P PRE0 OLD0).
Local Notation jpos0 := (jpos P PRE0 OLD0 opos0).
Local Notation jNEW0 := (jNEW OLD0).
Local Notation jser0 := (jser OLD0).
Local Notation crash_boundJ := (crash_boundJ P PRE0 OLD0).

(* hi is the top WAL file of the directory img *)
Definition is_top (img : fsT) (hi : N) : Prop :=
  hi <= U64_MAX /\ (exists b, fs_get img (filename hi) = Some (FFile b)) /\
  forall x, hi < x -> x <= U64_MAX -> fs_get img (filename x) = None.



Theorem recover_vcall_setup_at2 st G (X : list entry) st' G' evs :
  InvJ0 st G -> w_pending (s_wr st) = [] ->
  InvJ0 st' G' -> gh_base G' = gh_base G -> gh_ALL G' = gh_ALL G ++ X ->
  w_pending (s_wr st') = [] -> Forall wf_entry X ->
  call_trace P (wlo (s_wr st)) (w_file (s_wr st)) (w_off (s_wr st))
             (encs_of (call_cursor P st G) (ser X)) (w_file (s_wr st')) (w_off (s_wr st')) evs ->
  c_fs (w_ctx (s_wr st')) = fold_left apply_event evs (c_fs (w_ctx (s_wr st))) ->
  (* logical atomicity of every prefix of X *)
  (forall Xd Xr, X = Xd ++ Xr ->
     exists Gd qsd,
       LInv qsd (wlo (s_wr st)) Gd /\ gh_base Gd = gh_base G /\ gh_before Gd = gh_before G /\
       map snd (gh_E Gd) = map snd (gh_E G) ++ Xd /\
       (Xd = [] -> forall q, s_get (abs_qs qsd) q = s_get (abs_qs (s_qs st)) q) /\
       (Xd <> [] -> forall q, s_get (abs_qs qsd) q = s_get (abs_qs (s_qs st')) q)) ->
  (X = [] -> forall q, s_get (abs_qs (s_qs st')) q = s_get (abs_qs (s_qs st)) q) ->
  crash_boundJ G X (abs_qs (s_qs st)) ->
  crash_boundJ G X (abs_qs (s_qs st')) ->
  forall pe, cpre pe evs ->
      (forall hi, is_top (fold_left apply_event pe (c_fs (w_ctx (s_wr st)))) hi -> w_file (s_wr st) <= hi ->
         w_file (s_wr st) * FB + w_off (s_wr st) + lenN (ev_data pe) + B <= (hi + 1) * FB) ->
      let img := fold_left apply_event pe (c_fs (w_ctx (s_wr st))) in
      exists PRE OLD opos adm cmax rm lo' n zz qs_log lo_log Glog,
        pre_ok PRE OLD opos /\ pre_cont P PRE (ser OLD) opos adm cmax rm /\ rm <= 7 /\
        (forall m, adm (m * NB P)) /\
        rc_hyps P PRE OLD opos adm rm img lo' n (gh_base G) zz qs_log lo_log Glog /\
        is_top img (lo' + N.of_nat n) /\
        ((forall q, s_get (abs_qs qs_log) q = s_get (abs_qs (s_qs st)) q) \/
         (forall q, s_get (abs_qs qs_log) q = s_get (abs_qs (s_qs st')) q)).
Proof.
  intros HI Hp0 HI' Eb EALL' Hp0' HwfX Hct Hfs Hprefix Hnilabs Hcb Hcb' pe Hcpre Hfitpe. cbn zeta.
  destruct (recover_vcall_setup_gen P HBS_lo HBS_hi HNB Hcrc Hnc PRE0 OLD0 opos0 adm0 cmax0 rm0
              Hpre0 Hpc0 Hrm0 Hadm0 st G X st' G' evs HI Hp0 HI' Eb EALL' Hp0' HwfX Hct Hfs Hprefix Hnilabs
              Hcb Hcb' pe Hcpre (or_intror (fun hi Ht Hle => or_introl (Hfitpe hi Ht Hle))))
    as (PRE & OLD & opos & adm & cmax & rm & lo' & n & zz & qs_log & lo_log & Glog &
        H1 & H2' & H3' & H4 & H5 & H6 & _ & _ & H7).
  exists PRE, OLD, opos, adm, cmax, rm, lo', n, zz, qs_log, lo_log, Glog.
  repeat (split; [assumption|]). exact H7.
Qed.

End Recover5.

Print Assumptions recover_vcall_setup_at2.
