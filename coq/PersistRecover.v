(* PersistRecover.v — recovery from the crash images of a segment of a history (from an anchor: a
   state satisfying the restart invariant with nothing buffered):
   torn_recover / tinv_recover: a crash before any unlink (open_torn + prefix_state + kept_replay
   + the recovery-time GC);  unlink_recover: a crash among the unlinks of a garbage collection
   (gc_partial + inv_reopen). *)
From Coq Require Import Lia ZArith ZifyN ZifyNat ZifyBool List Sorted.
From MRL Require Import Bytes BytesProofs Params Names NamesProofs Frame Record Mem Spec Rolling Log
  Driver Hist SpecRefine RecordProofs StreamProofs PolicyProofs GcProofs GhostLog ReplaySpec
  HandleProofs FileStream ResyncProofs TornProofs PersistProofs WriterProofs EffectsProofs
  RestartInv RestartWrite RestartGc RestartStep OpenReplay RestartFinal TornFile CrashTrace
  PersistTrace PersistGc PersistLogic.

Arguments N.add : simpl never.
Arguments N.sub : simpl never.
Arguments N.mul : simpl never.
Arguments N.eqb : simpl never.
Arguments N.ltb : simpl never.
Arguments N.leb : simpl never.
Arguments N.div : simpl never.
Arguments N.modulo : simpl never.
Arguments N.min : simpl never.
Arguments N.max : simpl never.

(* ---------- small list facts ---------- *)
Lemma firstn_all_app {A} (l1 l2 : list A) : firstn (length l1) (l1 ++ l2) = l1.
Proof. induction l1 as [|a l1 IH]; cbn [length firstn app]; [now destruct l2|now rewrite IH]. Qed.

Lemma nth_error_split_last {A} (l : list A) m x :
  length l = S m -> nth_error l m = Some x -> l = firstn m l ++ [x].
Proof.
  revert m. induction l as [|a l IH]; intros m Hl Hn; [discriminate|].
  destruct m as [|m]; cbn [length firstn nth_error app] in *.
  - injection Hn as ->. destruct l; [reflexivity|discriminate].
  - f_equal. apply IH; [lia|exact Hn].
Qed.

(* ---------- the arithmetic of the recovered position (torn_recover) ---------- *)
Lemma torn_abs_arith (FBk Bk base lo nfl wf wo ln f1o wf0 wo0 pf j : N) :
  0 < Bk -> base <= lo -> lo <= wf0 ->
  nfl + lo = wf + 1 -> 1 <= nfl ->
  wf * FBk + wo + ln = f1o ->
  j <= ln ->
  (wf0 - base) * FBk + wo0 = pf ->
  (forall m, (lo - base) * FBk + ((nfl - 1) * FBk + wo) + j <= m * Bk ->
             (lo - base) * FBk <= m * Bk -> pf <= m * Bk) ->
  wf0 * FBk + wo0 <= f1o + Bk.
Proof.
  intros HB Hbase Hlo0 Hn Hn1 Hposeq Hj Hpos0 Hup.
  set (c0 := (lo - base) * FBk + ((nfl - 1) * FBk + wo)) in *.
  assert (Ec0 : base * FBk + c0 = wf * FBk + wo).
  { unfold c0. replace (nfl - 1) with (wf - lo) by lia.
    assert (E : wf * FBk = base * FBk + (lo - base) * FBk + (wf - lo) * FBk).
    { rewrite <- !N.mul_add_distr_r. f_equal. lia. }
    lia. }
  assert (Hbc0 : (lo - base) * FBk <= c0) by (unfold c0; apply N.le_add_r).
  clearbody c0.
  set (cend := c0 + ln).
  pose proof (N.div_mod cend Bk ltac:(lia)) as Hdm.
  pose proof (N.mod_lt cend Bk ltac:(lia)) as Hml.
  set (qq := cend / Bk) in *.
  assert (Eq1 : (qq + 1) * Bk = Bk * qq + Bk).
  { rewrite N.mul_add_distr_r, N.mul_1_l, (N.mul_comm qq Bk). reflexivity. }
  assert (Hpf : pf <= (qq + 1) * Bk).
  { apply Hup; rewrite Eq1; unfold cend in Hdm; lia. }
  assert (E0 : wf0 * FBk = base * FBk + (wf0 - base) * FBk).
  { rewrite <- N.mul_add_distr_r. f_equal. lia. }
  unfold cend in Hdm. lia.
Qed.

Section PSurvive.
Variable P : params.
Hypothesis HBS_lo : 7 < BS P.
Hypothesis HBS_hi : BS P <= 65542.
Hypothesis HNB : 1 <= NB P.
Hypothesis Hcrc : forall t p, crcf P t p < 2 ^ 32.
Hypothesis HGC : L_GC P = false.
Hypothesis HIO : L_IO P = false.
Hypothesis HSHORT : L_SHORT P = false.
Hypothesis Hnc : no_zero_collision P.

Local Notation B := (BS P).
Local Notation FB := (FILE_BYTES P).
Local Notation ffp := (first_frame_pos P).
Local Notation encs_of := (encs_of P).
Local Notation cursor_after := (cursor_after P).
Local Notation sr := (map entry_ser).
Local Notation HW f := (f P HBS_lo HBS_hi HNB Hcrc) (only parsing).
Local Notation HG f := (f P HBS_lo HBS_hi HNB Hcrc HGC) (only parsing).
Local Notation HN f := (f P HBS_lo HBS_hi HNB) (only parsing).
Local Notation H3 f := (f P HBS_lo HBS_hi Hcrc) (only parsing).
Local Notation H2 f := (f P HBS_lo HBS_hi) (only parsing).
Local Notation Inv := (Inv P).
Local Notation PInv := (PInv P).
Local Notation stream_bound := (stream_bound P).
Local Notation absq st := (abs_qs (s_qs st)).
Local Notation MAXB := (FB * (U64_MAX + 1)).
Local Notation stN st h m := (fst (run P st (firstn m h))).

(* the recovery-time garbage collector has room for its position entries: from any position up
   to one block after A, for the empty queues of the state after any prefix of the history *)
Definition crash_bound_at (st_g : state) (h_all : list (op * bool)) (A : N) : Prop :=
  forall a extra m, (m <= length h_all)%nat -> a <= A + B ->
    pos_extra (absq (stN st_g h_all m)) extra ->
    cursor_after a (sr extra) <= MAXB.

(* ====================================================================== *)
(* 1. a crash before any unlink                                            *)
(* ====================================================================== *)
Lemma torn_recover st_g G_g h_all NEW f1 off1 wevs tail pe pol hint :
  Inv st_g G_g -> w_pending (s_wr st_g) = [] ->
  hist_wf P st_g h_all -> stream_bound G_g (map snd (run_log P st_g h_all)) ->
  let w := s_wr st_g in
  NEW = encs_of (wpos P w) (sr (map snd (run_log P st_g h_all))) ->
  wtrace P (w_file w) (w_off w) wevs NEW f1 off1 -> Forall noop_ev tail -> f1 <= U64_MAX ->
  cpre pe (wevs ++ tail) ->
  (forall m, (m < length h_all)%nat -> wlo (s_wr (stN st_g h_all m)) = wlo w) ->
  (forall pre o t, h_all = pre ++ [(o, t)] -> mid_state P (fst (run P st_g pre)) o = None ->
     wlo (s_wr (fst (run P st_g h_all))) = wlo w) ->
  crash_bound_at st_g h_all (f1 * FB + off1) ->
  exists m st_r,
    (m <= length h_all)%nat /\
    open P (fold_left apply_event pe (c_fs (w_ctx w))) None pol hint = OpenOk st_r /\
    (forall q, s_get (absq st_r) q = s_get (absq (stN st_g h_all m)) q).
Proof.
  intros HI Hp0 Hwf Hb w ENEW Htr Htail Hu' Hc Hwlo_int Hwlo_fin Hcb.
  pose proof HI as (HP & HL).
  destruct (anchor_shape_plain P HBS_lo HBS_hi HNB Hcrc w G_g NEW f1 off1 wevs tail pe
              HP Hp0 Htr Htail Hu' Hc)
    as (hi & short & z & Hlohi & Hf0hi & Hhif1 & Hhiu & Hndi & Hdiri & Hlisti & Hfilesi & Hshorti &
        Hdata & Hj & Hstr & Hlen & Hfreshi & Hlast).
  cbn zeta in *.
  set (img := fold_left apply_event pe (c_fs (w_ctx w))) in *.
  set (lo := wlo w) in *. set (base := gh_base G_g) in *.
  set (T := gh_T P G_g) in *. set (c0 := (lo - base) * FB + wpos P w) in *.
  set (j := lenN (ev_data pe)) in *.
  set (X := map snd (run_log P st_g h_all)) in *.
  pose proof HP as (Hw & _ & _ & Hbase0 & Hc10 & Hc20 & _ & HWf & _). cbn zeta in Hc10, Hc20.
  assert (Hbase : base <= lo) by exact Hbase0.
  assert (Hc1 : lenN T <= c0) by exact Hc10.
  assert (Hc2 : c0 <= ffp (lenN T)) by exact Hc20.
  clear Hbase0 Hc10 Hc20.
  set (n := N.to_nat (hi - lo)).
  assert (Ehi : lo + N.of_nat n = hi) by (unfold n; lia).
  assert (Efl : nfiles lo hi = iota lo (S n)) by reflexivity.
  assert (ENEW' : NEW = encs_of c0 (sr X)).
  { rewrite ENEW. unfold c0. symmetry. apply (HW encs_of_shift). apply (HN mulFB_mod). }
  (* the hypotheses of open_torn *)
  assert (Hfiles : forall f, In f (iota lo (S n)) ->
            exists b, fs_get img (filename f) = Some (FFile b) /\ lenN b <= FB /\
                      (f <> lo + N.of_nat n -> lenN b = FB)).
  { intros f Hin. apply iota_In in Hin. destruct (Hfilesi f ltac:(lia)) as (b & Hgb & Hl).
    exists b. split; [exact Hgb|]. rewrite Ehi.
    destruct (N.eqb_spec f hi) as [->|Hne].
    - split; [destruct short; cbn [andb] in Hl; lia|]. intros H; now destruct H.
    - rewrite andb_false_r in Hl. split; [lia|]. intros _. exact Hl. }
  assert (HwfX : Forall wf_entry X).
  { destruct (run_log_wf P h_all st_g (Inv_qs_wf P _ _ HI) Hwf) as [H _].
    unfold X. unfold log_wf in H. clear - H. induction H; constructor; assumption. }
  assert (Henc : encs_rel P 0 (sr (gh_ALL G_g)) T) by (apply (H3 encs_of_rel)).
  assert (Hbc0 : (lo - base) * FB <= c0) by (unfold c0; lia).
  assert (Hj' : j <= lenN (encs_of c0 (sr X))) by (rewrite <- ENEW'; exact Hj).
  rewrite Efl in Hlisti, Hstr.
  assert (Hfsx : zext P img hi = fs_ext P img lo n) by (unfold zext, fs_ext; now rewrite Ehi).
  rewrite Hfsx, ENEW' in Hstr.
  assert (HlenS : lenN (T ++ zerosN (c0 - lenN T) ++ takeN j (encs_of c0 (sr X)) ++ zerosN z) =
                  (lo + N.of_nat n - base + 1) * FB).
  { rewrite !lenN_app, !lenN_zerosN, lenN_takeN. rewrite Ehi.
    rewrite N.min_l by exact Hj'.
    assert (E : hi - base + 1 = hi + 1 - base) by lia. rewrite E. lia. }
  destruct (open_torn P HBS_lo HBS_hi HNB Hcrc Hnc img lo n Hlisti Hfiles base Hbase
              (gh_ALL G_g) X T c0 j z pol hint HIO HSHORT HWf HwfX Henc Hc1 Hc2 Hbc0 Hj' Hstr HlenS)
    as (w0 & tags & E_pre & E_suf & X1 & Xr & Xd & pf & HE & _ & Hsuf & HX & Hle & HXr & HXd &
        Hspec & Hpf1 & _ & _ & Hup & _ & Hopen).
  (* Xd is a prefix of X *)
  assert (HXp : exists Xrest, X = Xd ++ Xrest /\ (Xr = [] -> Xrest = [])).
  { destruct HXd as [->|(x & X2 & -> & -> & _)].
    - exists Xr. split; [exact HX|auto].
    - exists X2. split; [rewrite HX, <- app_assoc; reflexivity|discriminate]. }
  destruct HXp as (Xrest & HXp & HXrest).
  destruct (map_app_inv snd (run_log P st_g h_all) Xd Xrest HXp) as (l1 & l2 & Hl & Hl1 & Hl2).
  destruct (prefix_state P HBS_lo HBS_hi HNB Hcrc HGC h_all st_g G_g l1 l2 HI Hwf Hb Hl)
    as (m & st_x & G_x & Hm & HIx & Ebx & Edx & Elx & Hqx & Hm0 & Halt).
  (* the first tracked file of st_x *)
  assert (Hlox : wlo (s_wr st_x) = lo).
  { destruct Halt as [(-> & Hmid)|(m' & -> & Hw')].
    - destruct (Nat.eq_dec m (length h_all)) as [->|Hne]; [|apply Hwlo_int; clear - Hne Hm; lia].
      rewrite firstn_all. destruct h_all as [|c h'] eqn:Eh; [reflexivity|]. rewrite <- Eh in *.
      assert (Hlen1 : length h_all = S (length h')) by (rewrite Eh; reflexivity).
      destruct (nth_error h_all (length h')) as [[o t]|] eqn:En.
      2:{ apply nth_error_None in En. clear - En Hlen1. lia. }
      pose proof (nth_error_split_last h_all _ _ Hlen1 En) as Esp.
      apply (Hwlo_fin _ o t Esp). apply (Hmid (length h') o t); [exact Hlen1|exact En].
    - rewrite Hw'. apply Hwlo_int. clear - Hm. lia. }
  (* the entries of st_x's ghost *)
  assert (EALL : gh_ALL G_x = E_pre ++ (E_suf ++ Xd)).
  { unfold gh_ALL. rewrite Edx, Elx, map_app, Hl1, app_assoc. fold (gh_ALL G_g). now rewrite HE, <- app_assoc. }
  assert (Hdel : sr (E_suf ++ Xd) =
                 delivered_from P ((wlo (s_wr st_x) - gh_base G_x) * FB) 0 (sr (gh_ALL G_x))).
  { rewrite Hlox, Ebx. fold base. rewrite EALL, app_assoc, <- HE, !map_app.
    destruct (delivered_from_app P HBS_lo HBS_hi Hcrc ((lo - base) * FB) (sr (gh_ALL G_g)) 0 (sr Xd))
      as [Ed _].
    - rewrite (HN cursor_after_0). fold (gh_ser G_g). fold (gh_T P G_g). fold T. clear - Hbc0 Hc2. lia.
    - rewrite Ed, Hsuf. reflexivity. }
  assert (Htl : length tags = length (E_suf ++ Xd)).
  { destruct Hspec as (Hlt & _). rewrite Hlt, starts_length, map_length. reflexivity. }
  destruct (kept_replay P HBS_lo HBS_hi HNB Hcrc st_x G_x E_pre (E_suf ++ Xd) tags HIx EALL Hdel Htl)
    as (qs' & Hrep & Hqi & Hnd' & Heq).
  rewrite Hrep in Hopen.
  (* the recovery-time GC *)
  destruct Hspec as (_ & _ & _ & _ & Hfl0 & Hlo0 & Hhi0 & Hoff0 & Hpos0 & Hpend0 & Hfs0 & Hplan0).
  set (st_r0 := mkSt w0 qs' pol).
  assert (Hrinv : rinvx P lo (s_wr st_r0)).
  { exists n. cbn [st_r0 s_wr].
    split; [exact Hfl0|]. split; [exact Hlo0|]. split; [exact Hhi0|]. split; [clear - Hhi0 Ehi Hhiu; lia|].
    split; [exact Hplan0|]. split; [apply wf_nil; exact Hpend0|]. split; [exact Hoff0|].
    rewrite (vfs_nil w0 Hpend0), Hfs0. unfold fs_ext. rewrite Ehi. split.
    - intros f Hf. destruct (N.eq_dec f hi) as [->|Hne].
      + eexists. apply PolicyProofs.fs_get_put_same.
      + rewrite GcProofs.fs_get_put_other by (apply filename_neq; clear - Hf Hne Hhiu; lia).
        destruct (Hfilesi f ltac:(clear - Hf; lia)) as (b & Hgb & _). now exists b.
    - intros f H1 H2'.
      rewrite GcProofs.fs_get_put_other by (apply filename_neq; clear - H1 H2' Hhiu; lia).
      apply Hfreshi; clear - H1 H2'; lia. }
  assert (Hex : pos_extra (absq (stN st_g h_all m)) (map snd (gc_log P st_r0 hint))).
  { apply (pos_extra_ext (abs_qs qs')); [intros q; now rewrite Heq, Hqx|].
    exact (gc_log_pos_extra P st_r0 hint Hnd'). }
  assert (Hbd : cursor_after (wabs P (s_wr st_r0)) (sr (map snd (gc_log P st_r0 hint))) <= MAXB).
  { apply (Hcb _ _ m Hm); [|exact Hex]. cbn [st_r0 s_wr]. unfold wabs.
    (* the recovered position is at most one block after the end of the data *)
    pose proof Hw as (Hok & _ & Hoff & _).
    destruct (wr_ok_len P (HN HB0) HNB w Hok) as (Hn & Hn1). fold lo in Hn.
    destruct (HW wtrace_pos _ _ _ _ _ _ Htr Hoff) as (_ & Hposeq).
    exact (torn_abs_arith FB B base lo (lenN (w_files w)) (w_file w) (w_off w) (lenN NEW)
             (f1 * FB + off1) (w_file w0) (w_off w0) pf j (N.lt_trans 0 7 B eq_refl HBS_lo)
             Hbase Hlo0 Hn Hn1 Hposeq Hj Hpos0 Hup). }
  destruct (rgc_ok P HBS_lo HBS_hi HNB Hcrc HGC lo st_r0 hint Hrinv Hpend0 Hbd)
    as (st_r & k & Egc & Eqs & _).
  exists m, st_r. split; [exact Hm|]. split.
  { rewrite Hopen. unfold open_finish. fold st_r0. now rewrite Egc. }
  intros q. rewrite Eqs. cbn [st_r0 s_qs]. now rewrite Heq, Hqx.
Qed.

(* ---------- histories: splitting ---------- *)
Lemma run_log_app a : forall st b,
  run_log P st (a ++ b) = run_log P st a ++ run_log P (fst (run P st a)) b.
Proof.
  induction a as [|[o t] a IH]; intros st b; cbn [app run_log]; [reflexivity|].
  rewrite IH, run_cons_fst, app_assoc. reflexivity.
Qed.

Lemma run_app_fst st a b : fst (run P st (a ++ b)) = fst (run P (fst (run P st a)) b).
Proof.
  rewrite run_app. destruct (run P st a) as [st1 o1]. cbn [fst].
  destruct (run P st1 b) as [st2 o2]. reflexivity.
Qed.

Lemma hist_wf_app a : forall st b,
  hist_wf P st (a ++ b) <-> hist_wf P st a /\ hist_wf P (fst (run P st a)) b.
Proof.
  induction a as [|[o t] a IH]; intros st b; cbn [app hist_wf].
  - cbn [run fst]. tauto.
  - rewrite IH, run_cons_fst. tauto.
Qed.

Lemma stN_app_le st a b m : (m <= length a)%nat -> stN st (a ++ b) m = stN st a m.
Proof. intros H. rewrite firstn_app. replace (m - length a)%nat with 0%nat by lia. cbn [firstn]. now rewrite app_nil_r. Qed.

Lemma stN_app_ge st a b m : stN st (a ++ b) (length a + m) = stN (fst (run P st a)) b m.
Proof.
  rewrite firstn_app. replace (length a + m - length a)%nat with m by lia.
  rewrite firstn_all2 by lia. apply run_app_fst.
Qed.

Lemma rev_inj {A} (a b : list A) : rev a = rev b -> a = b.
Proof. intros H. apply (f_equal (@rev A)) in H. now rewrite !rev_involutive in H. Qed.

Lemma stream_bound_app G st a b :
  stream_bound G (map snd (run_log P st (a ++ b))) -> stream_bound G (map snd (run_log P st a)).
Proof. rewrite run_log_app, map_app. apply (HW stream_bound_prefix). Qed.

(* ====================================================================== *)
(* 2. a crash while (or before) the bytes of a segment are written         *)
(* ====================================================================== *)
Lemma tinv_recover st_g G_g h_x st_x D_x M pe pol hint :
  Inv st_g G_g -> w_pending (s_wr st_g) = [] ->
  fst (run P st_g h_x) = st_x ->
  hist_wf P st_g h_x -> stream_bound G_g (map snd (run_log P st_g h_x)) ->
  let w := s_wr st_g in
  tinv P (c_ev (w_ctx w)) (c_fs (w_ctx w)) (w_file w) (w_off w) M (takeN (wpos P w) (wstream w))
       (wlo w) (wpos P w) (s_wr st_x) D_x ->
  D_x = encs_of (wpos P w) (sr (map snd (run_log P st_g h_x))) ->
  (forall m, (m < length h_x)%nat -> wlo (s_wr (stN st_g h_x m)) = wlo w) ->
  crash_bound_at st_g h_x (wabs P (s_wr st_x)) ->
  forall E_x, c_ev (w_ctx (s_wr st_x)) = rev E_x ++ c_ev (w_ctx w) -> cpre pe E_x ->
  exists m st_r,
    (m <= length h_x)%nat /\
    open P (fold_left apply_event pe (c_fs (w_ctx w))) None pol hint = OpenOk st_r /\
    (forall q, s_get (absq st_r) q = s_get (absq (stN st_g h_x m)) q).
Proof.
  intros HI Hp0 Hrun Hwf Hb w Ht ED Hwlo Hcb E_x HEx Hc.
  destruct (tinv_facts _ _ _ _ _ _ _ _ _ _ _ Ht) as (Hwi & Hlo & (E & Dos & Hev & Hfs & _ & Htr & HD)).
  assert (E = E_x).
  { rewrite Hev in HEx. apply app_inv_tail in HEx. now apply rev_inj. }
  subst E. pose proof Hwi as (Hok & Hwfw & Hoff & _ & Hu & _).
  unfold wf in Hwfw.
  assert (Hos : os_pos (s_wr st_x) + lenN (w_pending (s_wr st_x)) = w_off (s_wr st_x))
    by (unfold os_pos; lia).
  pose proof (wtrace_snoc_write P _ _ _ _ _ _ (w_pending (s_wr st_x)) Htr ltac:(lia)) as Htr'.
  rewrite Hos, <- HD in Htr'.
  apply (torn_recover st_g G_g h_x D_x (w_file (s_wr st_x)) (w_off (s_wr st_x)) _ [] pe pol hint
           HI Hp0 Hwf Hb ED Htr' (Forall_nil _) Hu).
  - rewrite app_nil_r. now apply cpre_app_l.
  - exact Hwlo.
  - intros _ _ _ _ _. rewrite Hrun. exact Hlo.
  - exact Hcb.
Qed.

(* ====================================================================== *)
(* 3. a crash among the unlinks of a garbage collection                    *)
(* ====================================================================== *)
Lemma unlink_recover st G o st2 e st3 k m c files' mu A pol hint :
  Inv st G -> op_wf_strict (s_qs st) o -> stream_bound G (map snd (step_log P st o)) ->
  mid_state P st o = Some st2 -> own_entry st o = Some e ->
  has_deletable st2 = true ->
  run_gc_if_necessary P st2 (gc_hint o) = (st3, Ok k) ->
  let st1 := gc_st1 P st2 (gc_hint o) in
  gc_loop (w_ctx (s_wr st1)) (w_files (s_wr st1)) (referenced st1 (w_file (s_wr st2))) =
    (c, files', Ok tt) ->
  w_files (s_wr st1) = iota (wlo (s_wr st1)) m ++ files' ->
  (mu <= m)%nat ->
  (forall a extra, a <= A + B -> pos_extra (absq st2) extra -> cursor_after a (sr extra) <= MAXB) ->
  A = wabs P (s_wr st1) ->
  exists st_r,
    open P (remove_files (c_fs (w_ctx (s_wr st1))) (iota (wlo (s_wr st1)) mu)) None pol hint =
      OpenOk st_r /\
    (forall q, s_get (absq st_r) q = s_get (absq st2) q).
Proof.
  intros HI Hop Hb Hmid Hown Hd Hgc st1 Egc Efiles Hmu Hcb EA. subst st1.
  destruct (inv_mid P HBS_lo HBS_hi HNB Hcrc st G o st2 e HI Hop Hb Hmid Hown)
    as (_ & HI2 & Hb2 & _).
  destruct (gc_partial P HBS_lo HBS_hi HNB Hcrc st2 _ (gc_hint o) st3 k HI2 Hb2 Hd Hgc
              m c files' Egc Efiles mu Hmu)
    as (fake & Gf & HIf & Hfs & Hpf & Hqf & Hff & Hof & _).
  assert (Hrb : reopen_bound P fake Gf).
  { intros extra Hx. destruct HIf as (HPf & _).
    apply (HW phys_stream_bound _ _ _ HPf). unfold phys_bound.
    apply (Hcb _ extra).
    - unfold RestartFinal.wabs. rewrite Hff, Hof, EA. unfold wabs. lia.
    - now rewrite <- Hqf. }
  destruct (HG inv_reopen HIO fake Gf HIf Hrb pol hint) as (st_r & _ & Eo & _ & Heq & _).
  exists st_r. split.
  - rewrite <- Hfs. rewrite <- Eo. f_equal. unfold drop_log.
    change (c_fs (w_ctx (flush_buf (s_wr fake)))) with (vfs (s_wr fake)). symmetry. now apply vfs_nil.
  - intros q. now rewrite Heq, Hqf.
Qed.

End PSurvive.

Print Assumptions torn_recover.
Print Assumptions tinv_recover.
Print Assumptions unlink_recover.

