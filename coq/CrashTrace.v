(* CrashTrace.v — the I/O event trace of one API call and its crash images (property C02).
   Setting: Inv P st G, nothing buffered, policy PAlways a, one call step P st o tick = (st', out)
   without I/O error; evs = the events the call added (chronological).
   (1) wtrace / call_trace / step_call_trace: evs = the data writes (every EvWrite exactly at the
       current end of the written stream, their data concatenating to
       NEW = call_bytes st G o = encs_of cursor (entries of step_log), a roll-over group
       [EvFlush; EvSyncData; EvSyncDir; EvCreate next; EvSetLen next FILE] exactly at each file
       boundary), then a flush group, then - if the GC ran - the unlinks of the m oldest files,
       oldest first, and the final flush group of the policy.  Also: the directory after the call
       is the replay of evs (fold_left apply_event).
   (2) crash_image_shape: for every (cut, k) the image fold_left apply_event (crash_events evs
       cut k) fs0 holds exactly the files lo+nu .. hi (nodup_keys, dir_of), all of FILE bytes
       except - if short - the last one, just created and still empty; after zero-extending that
       last file (zext, what ensure_last_full does) the stream of these files is
         dropN ((lo+nu-base)*FILE) (T ++ zerosN (c0 - |T|) ++ takeN j NEW ++ zerosN z)
       with j = the number of data bytes of the crash prefix (crash_data_mono: monotone in
       (cut, k)), and nu <> 0 -> j = |NEW|.
   (3) img_zero, img_full.
   DEVIATION from the task statement: the unlinked files are a prefix lo .. lo+m-1 of the files
   present when the GC runs, with lo + m <= the current file at the end of the call; they are
   NOT always files of st: an entry larger than a file rolls over several times and the GC of
   the same call may unlink files the call itself created (unlink_created_example at the end
   of this file: BS = 16, NB = 2, a 40-byte queue name).  Hence lo + nu <= hi in (2), not
   lo + nu <= w_file (s_wr st). *)
From Coq Require Import Lia ZArith ZifyN ZifyNat ZifyBool List Sorted.
From MRL Require Import Bytes BytesProofs Params Names NamesProofs Frame Record Mem Spec Rolling Log
  Driver SpecRefine RecordProofs StreamProofs PolicyProofs GcProofs GhostLog ReplaySpec
  HandleProofs FileStream ResyncProofs PersistProofs WriterProofs RestartInv RestartWrite RestartGc
  RestartStep OpenReplay.

Arguments N.add : simpl never.
Arguments N.sub : simpl never.
Arguments N.mul : simpl never.
Arguments N.eqb : simpl never.
Arguments N.ltb : simpl never.
Arguments N.leb : simpl never.
Arguments N.div : simpl never.
Arguments N.modulo : simpl never.
Arguments N.min : simpl never.
Arguments N.max : simpl never.

(* ====================================================================== *)
(* 0. crash prefixes of an event list                                     *)
(* ====================================================================== *)

(* pe is what a crash leaves of evs: a prefix, the last event possibly a torn write *)
Inductive cpre : list event -> list event -> Prop :=
| cp_nil evs : cpre [] evs
| cp_part n off d k evs : cpre [EvWrite n off (takeN k d)] (EvWrite n off d :: evs)
| cp_cons e pe evs : cpre pe evs -> cpre (e :: pe) (e :: evs).

Lemma crash_events_cons0 e r k :
  crash_events (e :: r) 0 k =
  if k =? 0 then [] else match e with EvWrite n off d => [EvWrite n off (takeN k d)] | _ => [] end.
Proof. unfold crash_events. cbn [takeN dropN]. change (0 =? 0) with true. cbn [app]. reflexivity. Qed.

Lemma crash_events_consS e r cut k :
  cut <> 0 -> crash_events (e :: r) cut k = e :: crash_events r (N.pred cut) k.
Proof.
  intros H. unfold crash_events. cbn [takeN dropN].
  destruct (N.eqb_spec cut 0) as [E|_]; [contradiction|]. reflexivity.
Qed.

Lemma crash_events_cpre evs : forall cut k, cpre (crash_events evs cut k) evs.
Proof.
  induction evs as [|e r IH]; intros cut k.
  - unfold crash_events. cbn [takeN dropN]. destruct (k =? 0); constructor.
  - destruct (N.eq_dec cut 0) as [->|Hc].
    + rewrite crash_events_cons0. destruct (k =? 0); [constructor|].
      destruct e; constructor.
    + rewrite crash_events_consS by exact Hc. constructor. apply IH.
Qed.

Lemma cpre_refl evs : cpre evs evs.
Proof. induction evs; constructor; assumption. Qed.

Lemma cpre_app_inv a : forall pe b,
  cpre pe (a ++ b) -> cpre pe a \/ exists pt, pe = a ++ pt /\ cpre pt b.
Proof.
  induction a as [|e a IH]; intros pe b H; cbn [app] in H.
  - right. exists pe. split; [reflexivity|exact H].
  - inversion H as [evs|n off d k evs|e' pe' evs H']; subst.
    + left. constructor.
    + left. constructor.
    + destruct (IH _ _ H') as [Hl|(pt & -> & Hr)].
      * left. now constructor.
      * right. exists pt. split; [reflexivity|exact Hr].
Qed.

Lemma cpre_app_l a pe b : cpre pe a -> cpre pe (a ++ b).
Proof. induction 1; cbn [app]; constructor; assumption. Qed.

Lemma cpre_app_r a : forall pt b, cpre pt b -> cpre (a ++ pt) (a ++ b).
Proof. induction a as [|e a IH]; intros pt b H; cbn [app]; [exact H|]. constructor. now apply IH. Qed.

(* the bytes of the write events, in order *)
Fixpoint ev_data (evs : list event) : bytes :=
  match evs with
  | [] => []
  | EvWrite _ _ d :: r => d ++ ev_data r
  | _ :: r => ev_data r
  end.

Lemma ev_data_app a b : ev_data (a ++ b) = ev_data a ++ ev_data b.
Proof.
  induction a as [|e a IH]; [reflexivity|]. cbn [app ev_data].
  destruct e; try exact IH. now rewrite IH, app_assoc.
Qed.

Lemma cpre_data pe evs : cpre pe evs -> exists rest, ev_data evs = ev_data pe ++ rest.
Proof.
  induction 1 as [evs|n off d k evs|e pe evs _ [rest IH]].
  - now exists (ev_data evs).
  - exists (dropN k d ++ ev_data evs). cbn [ev_data]. rewrite app_nil_r, app_assoc.
    now rewrite takeN_dropN.
  - exists rest. cbn [ev_data]. destruct e; try exact IH. now rewrite IH, app_assoc.
Qed.

Lemma cpre_data_take pe evs : cpre pe evs ->
  ev_data pe = takeN (lenN (ev_data pe)) (ev_data evs) /\ lenN (ev_data pe) <= lenN (ev_data evs).
Proof.
  intros H. destruct (cpre_data _ _ H) as [rest E]. rewrite E, takeN_app_exact, lenN_app.
  split; [reflexivity|lia].
Qed.

(* monotonicity in (cut, k): an earlier crash point leaves a crash prefix of a later one *)
Lemma crash_events_mono evs : forall cut1 k1 cut2 k2,
  cut1 < cut2 \/ (cut1 = cut2 /\ k1 <= k2) ->
  cpre (crash_events evs cut1 k1) (crash_events evs cut2 k2).
Proof.
  induction evs as [|e r IH]; intros cut1 k1 cut2 k2 Hle.
  - unfold crash_events. cbn [takeN dropN]. destruct (k1 =? 0); constructor.
  - destruct (N.eq_dec cut1 0) as [->|Hc1].
    + rewrite crash_events_cons0. destruct (N.eqb_spec k1 0) as [_|Hk1]; [constructor|].
      destruct (N.eq_dec cut2 0) as [->|Hc2].
      * rewrite crash_events_cons0. destruct (N.eqb_spec k2 0) as [Hk2|Hk2]; [lia|].
        destruct e; try constructor.
        replace (takeN k1 data) with (takeN k1 (takeN k2 data)); [constructor|].
        rewrite takeN_takeN. f_equal. lia.
      * rewrite crash_events_consS by exact Hc2. destruct e; constructor.
    + assert (Hc2 : cut2 <> 0) by lia.
      rewrite !crash_events_consS by assumption. constructor. apply IH. lia.
Qed.

Lemma crash_data_mono evs cut1 k1 cut2 k2 :
  cut1 < cut2 \/ (cut1 = cut2 /\ k1 <= k2) ->
  lenN (ev_data (crash_events evs cut1 k1)) <= lenN (ev_data (crash_events evs cut2 k2)).
Proof. intros H. exact (proj2 (cpre_data_take _ _ (crash_events_mono evs _ _ _ _ H))). Qed.

(* ====================================================================== *)
(* 1. the trace of the data writes of a call                              *)
(* ====================================================================== *)

Section Trace.
Variable P : params.
Hypothesis HBS_lo : 7 < BS P.
Hypothesis HBS_hi : BS P <= 65542.
Hypothesis HNB : 1 <= NB P.
Hypothesis Hcrc : forall t p, crcf P t p < 2 ^ 32.
Hypothesis HGC : L_GC P = false.      (* the current code: the GC persists before unlinking *)

Local Notation B := (BS P).
Local Notation FB := (FILE_BYTES P).
Local Notation ffp := (first_frame_pos P).
Local Notation enc_of := (enc_of P).
Local Notation encs_of := (encs_of P).
Local Notation cursor_after := (cursor_after P).
Local Notation H3 f := (f P HBS_lo HBS_hi Hcrc) (only parsing).
Local Notation H2 f := (f P HBS_lo HBS_hi) (only parsing).
Local Notation HW f := (f P HBS_lo HBS_hi HNB Hcrc) (only parsing).

Lemma HB0' : 0 < B. Proof. lia. Qed.
Lemma HB7' : HEADER_LEN <= B. Proof. unfold HEADER_LEN. lia. Qed.
Lemma FB_pos : 0 < FB. Proof. pose proof (FB_ge_B P HB0' HNB). lia. Qed.

(* the roll-over group: the old file is flushed and synced, the next one created and sized *)
Definition roll_group (f : N) : list event :=
  [EvFlush (filename f); EvSyncData (filename f); EvSyncDir;
   EvCreate (filename (f + 1)); EvSetLen (filename (f + 1)) FB].

(* wtrace f off evs D f' off': starting with the OS position at offset off of file f, the
   events evs write the bytes D, consecutively, every write exactly at the current end of the
   written stream, rolling over to the next (fresh) file exactly at the end of a file, and leave
   the OS position at offset off' of file f' *)
Inductive wtrace : N -> N -> list event -> bytes -> N -> N -> Prop :=
| wt_nil f off : wtrace f off [] [] f off
| wt_write f off d evs D f' off' :
    off + lenN d <= FB ->
    wtrace f (off + lenN d) evs D f' off' ->
    wtrace f off (EvWrite (filename f) off d :: evs) (d ++ D) f' off'
| wt_roll f evs D f' off' :
    wtrace (f + 1) 0 evs D f' off' ->
    wtrace f FB (roll_group f ++ evs) D f' off'.

Lemma wtrace_app f off e1 D1 f1 off1 e2 D2 f2 off2 :
  wtrace f off e1 D1 f1 off1 -> wtrace f1 off1 e2 D2 f2 off2 ->
  wtrace f off (e1 ++ e2) (D1 ++ D2) f2 off2.
Proof.
  intros H1 H2. induction H1 as [f off|f off d evs D f' off' Hfit _ IH|f evs D f' off' _ IH].
  - exact H2.
  - cbn [app]. rewrite <- app_assoc. constructor; [exact Hfit|]. now apply IH.
  - rewrite <- app_assoc. constructor. now apply IH.
Qed.

Lemma wtrace_snoc_write f off evs D f1 off1 d :
  wtrace f off evs D f1 off1 -> off1 + lenN d <= FB ->
  wtrace f off (evs ++ [EvWrite (filename f1) off1 d]) (D ++ d) f1 (off1 + lenN d).
Proof.
  intros H Hfit. eapply wtrace_app; [exact H|].
  pose proof (wt_write f1 off1 d [] [] f1 (off1 + lenN d) Hfit (wt_nil _ _)) as H'.
  rewrite app_nil_r in H'. exact H'.
Qed.

Lemma wtrace_snoc_roll f off evs D f1 :
  wtrace f off evs D f1 FB -> wtrace f off (evs ++ roll_group f1) D (f1 + 1) 0.
Proof.
  intros H. rewrite <- (app_nil_r D). eapply wtrace_app; [exact H|].
  pose proof (wt_roll f1 [] [] (f1 + 1) 0 (wt_nil _ _)) as H'.
  rewrite app_nil_r in H'. exact H'.
Qed.

Lemma wtrace_le f off evs D f' off' : wtrace f off evs D f' off' -> f <= f'.
Proof. induction 1; lia. Qed.

Lemma wtrace_data f off evs D f' off' : wtrace f off evs D f' off' -> ev_data evs = D.
Proof.
  induction 1 as [f off|f off d evs D f' off' _ _ IH|f evs D f' off' _ IH].
  - reflexivity.
  - cbn [ev_data]. now rewrite IH.
  - exact IH.
Qed.

(* the offsets are those of consecutive stream positions *)
Lemma wtrace_pos f off evs D f' off' : wtrace f off evs D f' off' ->
  off <= FB -> off' <= FB /\ f * FB + off + lenN D = f' * FB + off'.
Proof.
  induction 1 as [f off|f off d evs D f' off' Hfit _ IH|f evs D f' off' _ IH]; intros Hoff.
  - rewrite (@lenN_nil byte). lia.
  - rewrite lenN_app. destruct (IH Hfit) as [H1 H2]. lia.
  - destruct (IH ltac:(lia)) as [H1 H2]. lia.
Qed.

(* ---------- the shape of the whole trace of a call ---------- *)
(* File::flush of the current file, with sync_data + directory sync when fsync is on *)
Definition flush_group (f : N) (a : bool) : list event :=
  EvFlush (filename f) :: (if a then [EvSyncData (filename f); EvSyncDir] else []).

(* the GC: the m oldest files, oldest first *)
Definition unlinks (lo : N) (m : nat) : list event :=
  map (fun f => EvUnlink (filename f)) (iota lo m).

(* call_trace lo f0 off0 NEW f1 off1 evs: the events of a call that starts with the OS position
   at (f0, off0), the tracker starting at file lo, and writes the bytes NEW: first all the data
   writes (with the roll-over groups), then a flush group, then - if the GC ran - the unlinks of
   the m oldest files followed by the final flush group of the policy *)
Inductive call_trace (lo f0 off0 : N) (NEW : bytes) (f1 off1 : N) : list event -> Prop :=
| ct_noop : NEW = [] -> f1 = f0 -> off1 = off0 -> call_trace lo f0 off0 NEW f1 off1 []
| ct_plain wevs a :
    wtrace f0 off0 wevs NEW f1 off1 ->
    call_trace lo f0 off0 NEW f1 off1 (wevs ++ flush_group f1 a)
| ct_gc wevs m a :
    wtrace f0 off0 wevs NEW f1 off1 -> lo + N.of_nat m <= f1 ->
    call_trace lo f0 off0 NEW f1 off1
               (wevs ++ flush_group f1 true ++ unlinks lo m ++ flush_group f1 a).

(* ---------- the writer primitives extend the trace ---------- *)
Section Ext.
Variable ev0 : list event.       (* the events before the call *)
Variable fs0 : fsT.              (* the directory before the call *)
Variables f0 off0 : N.           (* the OS position before the call *)

Definition trW (w : rwriter) (D : bytes) : Prop :=
  exists evs Dos,
    c_ev (w_ctx w) = rev evs ++ ev0 /\
    c_fs (w_ctx w) = fold_left apply_event evs fs0 /\
    (exists b, fs_get (c_fs (w_ctx w)) (filename (w_file w)) = Some (FFile b)) /\
    wtrace f0 off0 evs Dos (w_file w) (os_pos w) /\
    D = Dos ++ w_pending w.

Lemma rev_snoc_ev (evs : list event) e : e :: rev evs ++ ev0 = rev (evs ++ [e]) ++ ev0.
Proof. now rewrite rev_app_distr. Qed.

Lemma fold_snoc_ev (evs : list event) e :
  fold_left apply_event (evs ++ [e]) fs0 = apply_event (fold_left apply_event evs fs0) e.
Proof. now rewrite fold_left_app. Qed.

Lemma os_write_apply c n off d b :
  fs_get (c_fs c) (filename n) = Some (FFile b) ->
  c_fs (os_write c n off d) = apply_event (c_fs c) (EvWrite (filename n) off d) /\
  exists b', fs_get (c_fs (os_write c n off d)) (filename n) = Some (FFile b').
Proof.
  intros Hg. unfold os_write, file_content. cbn [ctx_ev ctx_fs c_fs apply_event]. rewrite Hg.
  split; [reflexivity|]. eexists. apply PolicyProofs.fs_get_put_same.
Qed.

(* a direct OS write of d at the OS position, nothing pending *)
Lemma trW_direct w D d :
  trW w D -> w_pending w = [] -> w_off w + lenN d <= FB ->
  trW (mkWr (os_write (w_ctx w) (w_file w) (os_pos w) d) (w_files w) (w_file w)
            (w_off w + lenN d) []) (D ++ d).
Proof.
  intros (evs & Dos & Hev & Hfs & (b & Hb) & Htr & HD) Hp Hfit.
  destruct (os_write_apply (w_ctx w) (w_file w) (os_pos w) d b Hb) as (Hfs' & Hb').
  assert (Hos : os_pos w = w_off w) by (unfold os_pos; rewrite Hp, (@lenN_nil byte); lia).
  exists (evs ++ [EvWrite (filename (w_file w)) (os_pos w) d]), (Dos ++ d).
  cbn [w_ctx w_file w_pending].
  split; [unfold os_write; cbn [ctx_ev c_ev ctx_fs]; rewrite Hev; apply rev_snoc_ev|].
  split; [rewrite Hfs', Hfs; symmetry; apply fold_snoc_ev|].
  split; [exact Hb'|].
  split.
  - unfold os_pos at 2. cbn [w_off w_pending]. rewrite (@lenN_nil byte), N.sub_0_r, <- Hos.
    apply wtrace_snoc_write; [exact Htr|lia].
  - rewrite HD, Hp, !app_nil_r. reflexivity.
Qed.

Lemma trW_flush_buf w D :
  trW w D -> wf w -> w_off w <= FB -> trW (flush_buf w) D.
Proof.
  intros Ht Hwf Hoff. unfold flush_buf. destruct (w_pending w) as [|x r] eqn:Ep; [exact Ht|].
  rewrite <- Ep. destruct Ht as (evs & Dos & Hev & Hfs & (b & Hb) & Htr & HD).
  destruct (os_write_apply (w_ctx w) (w_file w) (os_pos w) (w_pending w) b Hb) as (Hfs' & Hb').
  unfold wf in Hwf.
  exists (evs ++ [EvWrite (filename (w_file w)) (os_pos w) (w_pending w)]), (Dos ++ w_pending w).
  cbn [w_ctx w_file w_pending].
  split; [unfold os_write; cbn [ctx_ev c_ev ctx_fs]; rewrite Hev; apply rev_snoc_ev|].
  split; [rewrite Hfs', Hfs; symmetry; apply fold_snoc_ev|].
  split; [exact Hb'|].
  split.
  - unfold os_pos at 2. cbn [w_off w_pending]. rewrite (@lenN_nil byte), N.sub_0_r.
    replace (w_off w) with (os_pos w + lenN (w_pending w)) by (unfold os_pos; lia).
    apply wtrace_snoc_write; [exact Htr|unfold os_pos; lia].
  - rewrite HD, app_nil_r. reflexivity.
Qed.

(* the bytes go to the buffer *)
Lemma trW_buffer w D d :
  trW w D -> wf w ->
  trW (mkWr (w_ctx w) (w_files w) (w_file w) (w_off w + lenN d) (w_pending w ++ d)) (D ++ d).
Proof.
  intros (evs & Dos & Hev & Hfs & Hb & Htr & HD) Hwf. unfold wf in Hwf.
  exists evs, Dos. cbn [w_ctx w_file w_pending].
  split; [exact Hev|]. split; [exact Hfs|]. split; [exact Hb|]. split.
  - replace (os_pos (mkWr (w_ctx w) (w_files w) (w_file w) (w_off w + lenN d) (w_pending w ++ d)))
      with (os_pos w); [exact Htr|].
    unfold os_pos. cbn [w_off w_pending]. rewrite lenN_app. lia.
  - rewrite HD, app_assoc. reflexivity.
Qed.

Lemma trW_bw_write_all w D d :
  trW w D -> wf w -> w_off w + lenN d <= FB -> trW (bw_write_all P w d) (D ++ d).
Proof.
  intros Ht Hwf Hfit. unfold bw_write_all, bw_write_all0.
  destruct (N.ltb_spec (lenN d) (B - lenN (w_pending w))) as [Hsp|Hsp].
  - cbn [w_ctx w_files w_file w_off w_pending]. now apply trW_buffer.
  - set (w1 := if B - lenN (w_pending w) <? lenN d then flush_buf w else w).
    assert (H1 : trW w1 D /\ wf w1 /\ w_off w1 = w_off w /\
                 (B <= lenN d -> w_pending w1 = [])).
    { unfold w1. destruct (N.ltb_spec (B - lenN (w_pending w)) (lenN d)) as [Hlt|Hge].
      - destruct (flush_buf_same w) as (_ & _ & Eo & Ep).
        split; [apply trW_flush_buf; [exact Ht|exact Hwf|lia]|].
        split; [apply wf_nil; exact Ep|]. split; [exact Eo|]. intros _. exact Ep.
      - split; [exact Ht|]. split; [exact Hwf|]. split; [reflexivity|].
        intros HB. apply lenN_0_nil. lia. }
    destruct H1 as (Ht1 & Hwf1 & Eo1 & Hp1).
    destruct (N.leb_spec B (lenN d)) as [HBd|HBd].
    + cbn [w_ctx w_files w_file w_off w_pending]. rewrite (Hp1 HBd).
      apply trW_direct; [exact Ht1|exact (Hp1 HBd)|lia].
    + cbn [w_ctx w_files w_file w_off w_pending]. now apply trW_buffer.
Qed.


(* ---------- wr_write, with its events ---------- *)
Lemma wr_write_fit_eq w d :
  d <> [] -> w_off w + lenN d <= FB -> wr_write P w d = (bw_write_all P w d, Ok tt).
Proof.
  intros Hd Hfit. unfold wr_write. destruct d as [|x d'] eqn:Ed; [congruence|].
  rewrite <- Ed in *. clear Ed x d'.
  destruct (N.ltb_spec FB (w_off w + lenN d)) as [H|_]; [lia|reflexivity].
Qed.

Lemma synced_ev w :
  c_ev (w_ctx (synced w)) =
  EvSyncDir :: EvSyncData (filename (w_file w)) :: EvFlush (filename (w_file w)) ::
  c_ev (w_ctx (flush_buf w)).
Proof.
  unfold synced, sync_dir, sync_data, bw_flush, wr_ctx. cbn [w_ctx ctx_ev c_ev w_file].
  rewrite (proj1 (flush_buf_same w)). reflexivity.
Qed.

Lemma wr_write_roll_eq w d :
  d <> [] -> wr_ok w -> FB < w_off w + lenN d ->
  fs_get (vfs w) (filename (w_file w + 1)) = None ->
  exists c2,
    wr_write P w d =
      (bw_write_all P (mkWr c2 (insert_sorted (w_file w + 1) (w_files w)) (w_file w + 1) 0 []) d,
       Ok tt) /\
    c_ev c2 = EvSetLen (filename (w_file w + 1)) FB :: EvCreate (filename (w_file w + 1)) ::
              c_ev (w_ctx (synced w)) /\
    c_fs c2 = fs_put (fs_put (vfs w) (filename (w_file w + 1)) (FFile []))
                     (filename (w_file w + 1)) (FFile (zerosN FB)).
Proof.
  intros Hd Hok Hroll Hfresh. unfold wr_write. destruct d as [|x d'] eqn:Ed; [congruence|].
  rewrite <- Ed in *. clear Ed x d'.
  destruct (N.ltb_spec FB (w_off w + lenN d)) as [_|H]; [|lia].
  fold (synced w).
  pose proof (synced_key w) as Q1. pose proof (synced_fs w) as V1.
  assert (Hok1 : wr_ok (synced w)).
  { eapply same_tracker_ok; [apply presync_tracker|exact Hok]. }
  rewrite (wr_ok_tracker_next _ Hok1).
  symmetry in Q1. apply wkey_fields in Q1. destruct Q1 as (E1 & E2 & E3 & _).
  rewrite <- E1, <- E2. unfold create_file. rewrite V1, Hfresh.
  eexists. split; [reflexivity|]. cbn [ctx_ev ctx_fs c_ev c_fs].
  split; reflexivity.
Qed.

(* ---------- the simulation relation carried through write_record ---------- *)
Variable M : N.                  (* bound on the cursor of the reference writer *)
Variable buf0 : bytes.           (* the buffer of the reference writer before the call *)
Variable lo0 : N.                (* the first tracked file *)

Definition tsim (w : rwriter) (v : vecw) : Prop :=
  wsim P M w v /\ wlo w = lo0 /\ exists D, vw_buf v = buf0 ++ D /\ trW w D.

Lemma tsim_rem w v : tsim w v -> wr_rem P w = vw_rem P v.
Proof. intros (H & _). exact (wsim_rem P HB0' HNB M w v H). Qed.

Lemma tsim_write w v d :
  tsim w v -> lenN d <= vw_rem P v -> Gv M (fst (vw_write v d)) ->
  snd (wr_write P w d) = snd (vw_write v d) /\
  tsim (fst (wr_write P w d)) (fst (vw_write v d)).
Proof.
  intros (Hs & Hlo & D & Hbuf & Ht) Hlen HG.
  destruct (wsim_write P HB0' HNB M w v d Hs Hlen HG) as (A & C).
  split; [exact A|]. split; [exact C|].
  pose proof (wsim_rem P HB0' HNB M w v Hs) as Hrem.
  destruct Hs as (Hi & Hc & Hb & HS & HM).
  pose proof Hi as (Hok & Hwf & Hoff & Hplan & Hu & Hfull & Hfresh).
  split.
  { (* the first tracked file *)
    pose proof (wr_write_hd P (wlo w) w d (fst (wr_write P w d)) (snd (wr_write P w d))
                  (surjective_pairing _) (conj Hok (wr_ok_hd P HBS_lo HBS_hi HNB w Hok))) as Hhd.
    rewrite (hd_inv_wlo P HBS_lo HBS_hi HNB _ _ Hhd). exact Hlo. }
  exists (D ++ d). split; [unfold vw_write; cbn [fst vw_buf]; rewrite Hbuf; apply app_assoc_reverse|].
  destruct d as [|x d'] eqn:Ed.
  { cbn [wr_write fst]. rewrite app_nil_r. exact Ht. }
  rewrite <- Ed in *. assert (Hd : d <> []) by (rewrite Ed; discriminate). clear Ed x d'.
  rewrite <- Hrem in Hlen. unfold wr_rem in Hlen.
  destruct (N.le_gt_cases (w_off w + lenN d) FB) as [Hfit|Hroll].
  - rewrite (wr_write_fit_eq w d Hd Hfit). cbn [fst]. now apply trW_bw_write_all.
  - assert (Hend : w_off w = FB) by (apply (fit_or_end P HB0' HNB _ (lenN d)); assumption).
    destruct (wr_ok_len P HB0' HNB w Hok) as [Hlow Hk].
    assert (Hpos' : wpos P w = lenN (w_files w) * FB) by (unfold wpos; rewrite Hend; nia).
    assert (Hu1 : w_file w + 1 <= U64_MAX).
    { rewrite <- Hlow. unfold Gv, vw_write in HG. cbn [fst vw_cursor] in HG.
      rewrite Hc, Hpos' in HG. pose proof (lenN_pos d Hd) as Hpos. pose proof FB_pos.
      assert (Hlt : FB * (wlo w + lenN (w_files w)) < FB * (U64_MAX + 1)) by lia.
      apply N.mul_lt_mono_pos_l in Hlt; lia. }
    assert (HlenFB : lenN d <= FB).
    { pose proof (FB_ge_B P HB0' HNB). pose proof (N.mod_lt (w_off w) B ltac:(lia)). lia. }
    assert (Hfr : fs_get (vfs w) (filename (w_file w + 1)) = None) by (apply Hfresh; lia).
    destruct (wr_write_roll_eq w d Hd Hok Hroll Hfr) as (c2 & Ew & Hev2 & Hfs2).
    rewrite Ew. cbn [fst].
    (* the trace up to the new file *)
    pose proof (trW_flush_buf w D Ht Hwf Hoff) as Ht1.
    destruct (flush_buf_same w) as (Ef & _ & Eo & Ep).
    destruct Ht1 as (evs & Dos & Hev & Hfs & Hb1 & Htr & HD).
    rewrite Ep, app_nil_r in HD. subst Dos.
    assert (Hos : os_pos (flush_buf w) = FB).
    { unfold os_pos. rewrite Ep, Eo, (@lenN_nil byte). lia. }
    rewrite Hos, Ef in Htr.
    apply trW_bw_write_all.
    + exists (evs ++ roll_group (w_file w)), D. cbn [w_ctx w_file w_pending].
      split.
      { rewrite Hev2, synced_ev, Hev, rev_app_distr. cbn [roll_group rev app].
        reflexivity. }
      split.
      { rewrite Hfs2, fold_left_app, <- Hfs. unfold roll_group.
        cbn [fold_left apply_event]. rewrite PolicyProofs.fs_get_put_same.
        rewrite flush_buf_fs. unfold set_len. rewrite (@lenN_nil byte).
        destruct (N.leb_spec FB 0) as [Hle|_]; [pose proof FB_pos; lia|].
        rewrite N.sub_0_r. reflexivity. }
      split; [rewrite Hfs2; eexists; apply PolicyProofs.fs_get_put_same|].
      split; [|now rewrite app_nil_r].
      unfold os_pos. cbn [w_off w_pending]. rewrite (@lenN_nil byte).
      change (0 - 0) with 0. now apply wtrace_snoc_roll.
    + apply wf_nil. reflexivity.
    + cbn [w_off]. lia.
Qed.

Theorem write_record_tsim w v p : tsim w v ->
  Gv M (fst (write_record P vecw vw_write (vw_rem P) v p)) ->
  snd (write_record P rwriter (wr_write P) (wr_rem P) w p) =
    snd (write_record P vecw vw_write (vw_rem P) v p) /\
  tsim (fst (write_record P rwriter (wr_write P) (wr_rem P) w p))
       (fst (write_record P vecw vw_write (vw_rem P) v p)).
Proof.
  apply (write_record_sim P HB7' rwriter vecw (wr_write P) (wr_rem P)
           vw_write (vw_rem P) tsim (Gv M) tsim_rem (Gv_back P HB0' HNB M) tsim_write (vw_pad_full P HB0' HNB)).
Qed.

(* ---------- the invariant of the API level: D = the bytes accepted so far ---------- *)
Variable cur0 : N.               (* the cursor of the reference writer before the call *)

Definition tinv (w : rwriter) (D : bytes) : Prop := tsim w (mkVecW (cur0 + lenN D) (buf0 ++ D)).

Lemma tsim_ext w v v' : vw_cursor v = vw_cursor v' -> vw_buf v = vw_buf v' -> tsim w v -> tsim w v'.
Proof. destruct v as [c b], v' as [c' b']; cbn [vw_cursor vw_buf]; intros -> ->; auto. Qed.

Lemma tinv_write_entry st D e st1 r :
  tinv (s_wr st) D ->
  cur0 + lenN D + lenN (enc_of (cur0 + lenN D) (entry_ser e)) <= M ->
  write_entry P st e = (st1, r) ->
  r = Ok (lenN (enc_of (cur0 + lenN D) (entry_ser e))) /\
  s_qs st1 = s_qs st /\ s_pol st1 = s_pol st /\
  tinv (s_wr st1) (D ++ enc_of (cur0 + lenN D) (entry_ser e)).
Proof.
  intros Ht HM Hw. unfold write_entry in Hw.
  destruct (write_record P rwriter (wr_write P) (wr_rem P) (s_wr st) (entry_ser e)) as [w1 r1] eqn:Ew.
  inversion Hw; subst st1 r. clear Hw.
  pose proof (write_record_tsim (s_wr st) _ (entry_ser e) Ht) as Hsim.
  rewrite (H3 write_record_enc_of) in Hsim. cbn [fst snd vw_cursor vw_buf] in Hsim.
  destruct Hsim as [Er Hs]; [unfold Gv; cbn [vw_cursor]; exact HM|].
  rewrite Ew in Er, Hs. cbn [fst snd] in Er, Hs.
  split; [exact Er|]. split; [reflexivity|]. split; [reflexivity|].
  unfold tinv. cbn [set_wr s_wr]. eapply tsim_ext; [| |exact Hs]; cbn [vw_cursor vw_buf].
  - rewrite lenN_app. lia.
  - symmetry. apply app_assoc.
Qed.

Lemma tinv_record_positions names : forall st D acc st1 r,
  tinv (s_wr st) D ->
  cur0 + lenN D +
    lenN (encs_of (cur0 + lenN D) (map entry_ser (map snd (rp_log P st names)))) <= M ->
  record_positions P st names acc = (st1, r) ->
  (exists n, r = Ok n) /\ s_qs st1 = s_qs st /\ s_pol st1 = s_pol st /\
  tinv (s_wr st1) (D ++ encs_of (cur0 + lenN D) (map entry_ser (map snd (rp_log P st names)))).
Proof.
  induction names as [|n names IH]; intros st D acc st1 r Ht HM Hr; cbn [record_positions rp_log] in *.
  - inversion Hr; subst. cbn [map ResyncProofs.encs_of]. rewrite app_nil_r.
    split; [eauto|]. auto.
  - destruct (qs_get (s_qs st) n) as [q|] eqn:Eq; [|eapply IH; eassumption].
    destruct (write_entry P st (EPosition n (next_position q))) as [st2 r2] eqn:Ew.
    set (e := EPosition n (next_position q)) in *.
    set (enc := enc_of (cur0 + lenN D) (entry_ser e)).
    assert (HM1 : cur0 + lenN D + lenN enc <= M).
    { destruct r2 as [k|err]; cbn [map snd ResyncProofs.encs_of] in HM; fold enc in HM;
        rewrite lenN_app in HM; lia. }
    destruct (tinv_write_entry st D e st2 r2 Ht HM1 Ew) as (Er & Eqs & Epol & Ht2).
    fold enc in Er, Ht2. subst r2.
    cbn [map snd ResyncProofs.encs_of] in HM |- *. fold enc in HM |- *.
    assert (Ec : cur0 + lenN D + lenN enc = cur0 + lenN (D ++ enc)) by (rewrite lenN_app; lia).
    rewrite Ec in HM |- *.
    set (X := encs_of (cur0 + lenN (D ++ enc)) (map entry_ser (map snd (rp_log P st2 names)))) in *.
    destruct (IH st2 (D ++ enc) (acc + lenN enc) st1 r Ht2) as (Hr' & Eqs' & Epol' & Ht').
    + fold X. rewrite (lenN_app enc X) in HM. lia.
    + exact Hr.
    + split; [exact Hr'|]. split; [congruence|]. split; [congruence|].
      rewrite <- app_assoc in Ht'. exact Ht'.
Qed.

(* ---------- persist ---------- *)
Lemma fold_flush_group f a fs : fold_left apply_event (flush_group f a) fs = fs.
Proof. destruct a; reflexivity. Qed.

Lemma fold_unlinks l : forall fs,
  fold_left apply_event (map (fun f => EvUnlink (filename f)) l) fs = remove_files fs l.
Proof.
  unfold remove_files. induction l as [|x l IH]; intros fs; cbn [map fold_left apply_event];
    [reflexivity|apply IH].
Qed.

Lemma persist_ev_nil w a :
  w_pending w = [] ->
  c_ev (w_ctx (wr_persist w a)) = rev (flush_group (w_file w) a) ++ c_ev (w_ctx w) /\
  c_fs (w_ctx (wr_persist w a)) = c_fs (w_ctx w) /\
  w_files (wr_persist w a) = w_files w /\ w_file (wr_persist w a) = w_file w /\
  w_off (wr_persist w a) = w_off w /\ w_pending (wr_persist w a) = [].
Proof.
  intros Hp. unfold wr_persist, sync_dir, sync_data, bw_flush, flush_buf, wr_ctx. rewrite Hp.
  destruct a; cbn [w_ctx ctx_ev c_ev c_fs w_files w_file w_off w_pending flush_group rev app];
    rewrite ?Hp; repeat split; reflexivity.
Qed.

Lemma flush_buf_idem w : flush_buf (flush_buf w) = flush_buf w.
Proof. unfold flush_buf at 1. now rewrite (proj2 (proj2 (proj2 (flush_buf_same w)))). Qed.

Lemma wr_persist_flushed w a : wr_persist w a = wr_persist (flush_buf w) a.
Proof. unfold wr_persist, bw_flush. now rewrite flush_buf_idem. Qed.

Lemma trW_persist w D a :
  trW w D -> wf w -> w_off w <= FB ->
  let w' := wr_persist w a in
  exists evs,
    c_ev (w_ctx w') = rev (evs ++ flush_group (w_file w) a) ++ ev0 /\
    c_fs (w_ctx w') = fold_left apply_event (evs ++ flush_group (w_file w) a) fs0 /\
    wtrace f0 off0 evs D (w_file w) (w_off w) /\
    w_files w' = w_files w /\ w_file w' = w_file w /\ w_off w' = w_off w /\ w_pending w' = [].
Proof.
  intros Ht Hwf Hoff w'. unfold w'. rewrite wr_persist_flushed.
  destruct (flush_buf_same w) as (Ef & Efl & Eo & Ep).
  destruct (persist_ev_nil (flush_buf w) a Ep) as (Hev & Hfs & K1 & K2 & K3 & K4).
  destruct (trW_flush_buf w D Ht Hwf Hoff) as (evs & Dos & Hev1 & Hfs1 & _ & Htr & HD).
  rewrite Ep, app_nil_r in HD. subst Dos.
  exists evs. rewrite Hev, Hfs, Hev1, Hfs1, Ef, K1, K2, K3, K4, Efl, Ef, Eo.
  split; [now rewrite rev_app_distr, app_assoc|].
  split; [now rewrite fold_left_app, fold_flush_group|].
  split; [|auto].
  unfold os_pos in Htr. rewrite Ep, Ef, Eo, (@lenN_nil byte), N.sub_0_r in Htr. exact Htr.
Qed.

(* ---------- the tracker is lo0, lo0+1, ... ---------- *)
Lemma wr_ok_iota w : wr_ok w -> w_files w = iota (wlo w) (length (w_files w)).
Proof.
  intros Hok. pose proof (wr_ok_hd P HBS_lo HBS_hi HNB w Hok) as Hhd. destruct Hok as [Hc _].
  destruct (w_files w) as [|lo r]; [destruct Hc|]. cbn [hd_error] in Hhd. injection Hhd as <-.
  cbn [contiguous] in Hc. cbn [length iota]. f_equal. now apply chain_iota.
Qed.

Lemma iota_app_inv a : forall lo n b, iota lo n = a ++ b -> a = iota lo (length a).
Proof.
  induction a as [|x a IH]; intros lo n b H; [reflexivity|].
  destruct n as [|n]; [discriminate|]. cbn [iota app length] in *. injection H as <- H.
  f_equal. eapply IH. exact H.
Qed.

(* ---------- the API functions ---------- *)
Lemma tinv_facts w D : tinv w D -> winv P w /\ wlo w = lo0 /\ trW w D.
Proof.
  intros ((Hi & _) & Hlo & D1 & Hb & Ht). cbn [vw_buf] in Hb. apply app_inv_head in Hb.
  subst D1. auto.
Qed.

Lemma tinv_write_first st e st1 r :
  tinv (s_wr st) [] ->
  cur0 + lenN (enc_of cur0 (entry_ser e)) <= M ->
  write_entry P st e = (st1, r) ->
  r = Ok (lenN (enc_of cur0 (entry_ser e))) /\
  s_qs st1 = s_qs st /\ s_pol st1 = s_pol st /\ tinv (s_wr st1) (enc_of cur0 (entry_ser e)).
Proof.
  intros Ht HM Hw. pose proof (tinv_write_entry st [] e st1 r Ht) as H.
  rewrite (@lenN_nil byte), N.add_0_r in H. cbn [app] in H. now apply H.
Qed.

(* the call ends with a persist, no GC *)
Lemma finish_plain st D a :
  tinv (s_wr st) D ->
  let w' := s_wr (persist st a) in
  exists evs,
    c_ev (w_ctx w') = rev evs ++ ev0 /\
    c_fs (w_ctx w') = fold_left apply_event evs fs0 /\
    call_trace lo0 f0 off0 D (w_file w') (w_off w') evs /\ w_pending w' = [].
Proof.
  intros Ht w'. destruct (tinv_facts _ _ Ht) as ((_ & Hwf & Hoff & _) & _ & HtW).
  destruct (trW_persist (s_wr st) D a HtW Hwf Hoff) as (evs & Hev & Hfs & Htr & _ & K2 & K3 & K4).
  unfold w'. cbn [persist set_wr s_wr].
  exists (evs ++ flush_group (w_file (s_wr st)) a). rewrite K2, K3.
  split; [exact Hev|]. split; [exact Hfs|]. split; [now constructor|exact K4].
Qed.

Lemma tinv_run_gc st D hint st3 n :
  tinv (s_wr st) D ->
  cur0 + lenN D +
    lenN (encs_of (cur0 + lenN D) (map entry_ser (map snd (gc_log P st hint)))) <= M ->
  run_gc_if_necessary P st hint = (st3, Ok n) ->
  s_pol st3 = s_pol st /\
  ((has_deletable st = false /\ st3 = st) \/
   (exists evs m,
      let D' := D ++ encs_of (cur0 + lenN D) (map entry_ser (map snd (gc_log P st hint))) in
      let f1 := w_file (s_wr st3) in
      c_ev (w_ctx (s_wr st3)) = rev (evs ++ flush_group f1 true ++ unlinks lo0 m) ++ ev0 /\
      c_fs (w_ctx (s_wr st3)) =
        fold_left apply_event (evs ++ flush_group f1 true ++ unlinks lo0 m) fs0 /\
      wtrace f0 off0 evs D' f1 (w_off (s_wr st3)) /\ lo0 + N.of_nat m <= f1 /\
      w_pending (s_wr st3) = [])).
Proof.
  intros Ht HM Hg. unfold run_gc_if_necessary in Hg. unfold gc_log in *.
  destruct (has_deletable st) eqn:Ehd.
  2:{ inversion Hg; subst. split; [reflexivity|]. left. auto. }
  unfold record_empty_queues_position in Hg.
  destruct (record_positions P st (pick_order hint (empty_names (s_qs st))) 0) as [st1 r1] eqn:Er.
  destruct (tinv_record_positions _ st D 0 st1 r1 Ht HM Er) as ((k & ->) & Eqs & Epol & Ht1).
  rewrite HGC in Hg. cbn [andb] in Hg.
  set (D' := D ++ encs_of (cur0 + lenN D) _) in *.
  destruct (tinv_facts _ _ Ht1) as (Hi1 & Hlo1 & HtW1).
  pose proof Hi1 as (Hok1 & Hwf1 & Hoff1 & _).
  destruct (trW_persist (s_wr st1) D' true HtW1 Hwf1 Hoff1)
    as (evs & Hev & Hfs & Htr & K1 & K2 & K3 & K4).
  cbn [persist set_wr s_wr] in Hg.
  remember (wr_persist (s_wr st1) true) as wp eqn:Ewp.
  destruct (gc_loop (w_ctx wp) (w_files wp) _) as [[c files] rg] eqn:Egc.
  destruct rg as [[]|e]; inversion Hg; subst st3 n; clear Hg.
  destruct (gc_loop_ok _ _ _ _ _ Egc) as (dropped & Efiles & Hun & _ & Hevg & Hfsg & _).
  cbn [set_wr s_wr s_pol w_ctx w_file w_off w_pending].
  split; [exact Epol|]. right.
  rewrite K1, (wr_ok_iota _ Hok1), Hlo1 in Efiles.
  pose proof (iota_app_inv _ _ _ _ Efiles) as Edr.
  set (m := length dropped) in *.
  exists evs, m. rewrite K2, K3.
  split.
  { rewrite Hevg, Hev. unfold unlink_events, unlinks. rewrite <- Edr.
    rewrite !rev_app_distr, <- !app_assoc. reflexivity. }
  split.
  { rewrite Hfsg, Hfs. rewrite app_assoc, (fold_left_app _ (evs ++ _)). unfold unlinks.
    rewrite fold_unlinks, <- Edr. reflexivity. }
  split; [exact Htr|]. split; [|exact K4].
  (* the current file is referenced, hence not dropped *)
  destruct (N.le_gt_cases (lo0 + N.of_nat m) (w_file (s_wr st1))) as [Hle|Hgt]; [exact Hle|].
  exfalso. assert (Hin : In (w_file (s_wr st1)) dropped).
  { rewrite Edr. apply iota_In. fold m. pose proof (winv_wlo_le P HBS_lo HBS_hi HNB _ Hi1). lia. }
  rewrite Forall_forall in Hun. specialize (Hun _ Hin). unfold referenced in Hun.
  cbn [persist set_wr s_wr] in Hun. rewrite <- Ewp, K2, N.eqb_refl, orb_true_r in Hun. discriminate.
Qed.

(* the call ends with a persist after the GC branch *)
Lemma finish_gc st D hint st3 n a :
  tinv (s_wr st) D ->
  cur0 + lenN D +
    lenN (encs_of (cur0 + lenN D) (map entry_ser (map snd (gc_log P st hint)))) <= M ->
  run_gc_if_necessary P st hint = (st3, Ok n) ->
  s_pol st3 = s_pol st /\
  let w' := s_wr (persist st3 a) in
  exists evs,
    c_ev (w_ctx w') = rev evs ++ ev0 /\
    c_fs (w_ctx w') = fold_left apply_event evs fs0 /\
    call_trace lo0 f0 off0
      (D ++ encs_of (cur0 + lenN D) (map entry_ser (map snd (gc_log P st hint))))
      (w_file w') (w_off w') evs /\
    w_pending w' = [].
Proof.
  intros Ht HM Hg. destruct (tinv_run_gc st D hint st3 n Ht HM Hg) as (Epol & [(Ehd & ->)|Hgc]).
  - split; [reflexivity|]. unfold gc_log. rewrite Ehd. cbn [map ResyncProofs.encs_of].
    rewrite app_nil_r. now apply finish_plain.
  - split; [exact Epol|]. destruct Hgc as (evs & m & Hev & Hfs & Htr & Hm & Hp). cbn zeta in *.
    cbn [persist set_wr s_wr].
    destruct (persist_ev_nil (s_wr st3) a Hp) as (Hev' & Hfs' & _ & K2 & K3 & K4).
    set (f1 := w_file (s_wr st3)) in *.
    exists (evs ++ flush_group f1 true ++ unlinks lo0 m ++ flush_group f1 a).
    rewrite Hev', Hfs', Hev, Hfs, K2, K3.
    split.
    { rewrite app_assoc, <- rev_app_distr, <- !app_assoc. reflexivity. }
    split.
    { replace (evs ++ flush_group f1 true ++ unlinks lo0 m ++ flush_group f1 a)
        with ((evs ++ flush_group f1 true ++ unlinks lo0 m) ++ flush_group f1 a)
        by (rewrite <- !app_assoc; reflexivity).
      now rewrite (fold_left_app _ _ (flush_group f1 a)), fold_flush_group. }
    split; [now constructor|exact K4].
Qed.

Lemma pop_always st tick a : s_pol st = PAlways a -> persist_on_policy st tick = persist st a.
Proof. intros H. unfold persist_on_policy. now rewrite H. Qed.

(* one call, relative to the reference writer *)
Theorem step_trace_rel st a o tick st' out :
  tinv (s_wr st) [] -> s_pol st = PAlways a ->
  w_file (s_wr st) = f0 -> w_off (s_wr st) = off0 -> w_pending (s_wr st) = [] ->
  c_ev (w_ctx (s_wr st)) = ev0 -> c_fs (w_ctx (s_wr st)) = fs0 ->
  cur0 + lenN (encs_of cur0 (map entry_ser (map snd (step_log P st o)))) <= M ->
  step P st o tick = (st', out) -> (forall e, out <> OutIo e) ->
  exists evs,
    c_ev (w_ctx (s_wr st')) = rev evs ++ ev0 /\
    c_fs (w_ctx (s_wr st')) = fold_left apply_event evs fs0 /\
    call_trace lo0 f0 off0 (encs_of cur0 (map entry_ser (map snd (step_log P st o))))
               (w_file (s_wr st')) (w_off (s_wr st')) evs /\
    w_pending (s_wr st') = [].
Proof.
  intros Ht Hpol Hf0 Hoff0 Hp0 Hev0 Hfs0 HM Hstep Hno.
  assert (Hnoop : step_log P st o = [] -> st' = st ->
            exists evs,
              c_ev (w_ctx (s_wr st')) = rev evs ++ ev0 /\
              c_fs (w_ctx (s_wr st')) = fold_left apply_event evs fs0 /\
              call_trace lo0 f0 off0 (encs_of cur0 (map entry_ser (map snd (step_log P st o))))
                         (w_file (s_wr st')) (w_off (s_wr st')) evs /\
              w_pending (s_wr st') = []).
  { intros -> ->. exists []. cbn [rev app fold_left map ResyncProofs.encs_of].
    split; [exact Hev0|]. split; [exact Hfs0|]. split; [now constructor|exact Hp0]. }
  destruct o as [q|q hint|q pos payloads|q p hint|fsync]; cbn [step step_log] in *.
  - (* ---------- create ---------- *)
    unfold create_queue in Hstep. unfold create_log in *.
    destruct (qs_contains (s_qs st) q).
    { inversion Hstep; subst. now apply Hnoop. }
    destruct (write_entry P st (EPosition q 0)) as [st1 r1] eqn:Ew.
    cbn [map snd ResyncProofs.encs_of] in HM |- *. rewrite app_nil_r in HM |- *.
    destruct (tinv_write_first st _ st1 r1 Ht HM Ew) as (-> & _ & _ & Ht1).
    inversion Hstep; subst st' out. cbn [set_qs s_wr].
    exact (finish_plain st1 _ true Ht1).
  - (* ---------- delete ---------- *)
    unfold delete_queue in Hstep. unfold delete_log in *.
    destruct (qs_get (s_qs st) q) as [mqv|]; [|inversion Hstep; subst; now apply Hnoop].
    destruct (write_entry P st (EDelete q (next_position mqv))) as [st1 r1] eqn:Ew.
    set (e1 := EDelete q (next_position mqv)) in *.
    assert (HM1 : cur0 + lenN (enc_of cur0 (entry_ser e1)) <= M).
    { destruct r1; cbn [map snd ResyncProofs.encs_of] in HM; rewrite lenN_app in HM; lia. }
    destruct (tinv_write_first st _ st1 r1 Ht HM1 Ew) as (-> & _ & Epol1 & Ht1).
    cbn [map snd ResyncProofs.encs_of] in HM |- *.
    set (st2 := set_qs st1 (qs_remove (s_qs st1) q)) in *.
    destruct (run_gc_if_necessary P st2 hint) as [st3 [k|err]] eqn:Eg;
      [|inversion Hstep; subst; exfalso; eapply Hno; reflexivity].
    inversion Hstep; subst st' out.
    destruct (finish_gc st2 _ hint st3 k true Ht1) as (_ & Hfin); [|exact Eg|exact Hfin].
    rewrite lenN_app in HM. lia.
  - (* ---------- append ---------- *)
    unfold append_records in Hstep. unfold append_log in *.
    destruct (qs_get (s_qs st) q) as [mqv|]; [|inversion Hstep; subst; now apply Hnoop].
    destruct (match pos with
              | Some p => if p + 1 =? next_position mqv then Some (OutAppend None 0)
                          else if p <? next_position mqv then Some OutPast else None
              | None => None end) as [o|] eqn:Ee.
    { rewrite (append_early_target_none _ _ _ Ee) in *. inversion Hstep; subst; now apply Hnoop. }
    rewrite (append_early_target _ _ Ee) in *.
    set (position := match pos with Some p => p | None => next_position mqv end) in *.
    destruct payloads as [|x r]; cbn [number_from] in *;
      [inversion Hstep; subst; now apply Hnoop|].
    set (e1 := EAppend q position ((position, x) :: number_from (position + 1) r)) in *.
    destruct (write_entry P st e1) as [st1 r1] eqn:Ew.
    cbn [map snd ResyncProofs.encs_of] in HM |- *. rewrite app_nil_r in HM |- *.
    destruct (tinv_write_first st _ st1 r1 Ht HM Ew) as (-> & _ & Epol1 & Ht1).
    rewrite (pop_always st1 tick a) in Hstep by congruence.
    destruct (append_all mqv (w_file (s_wr st)) ((position, x) :: number_from (position + 1) r));
      inversion Hstep; subst st' out; cbn [set_qs s_wr]; exact (finish_plain st1 _ a Ht1).
  - (* ---------- truncate ---------- *)
    unfold truncate in Hstep. unfold truncate_log in *.
    destruct (qs_get (s_qs st) q) as [mqv|]; [|inversion Hstep; subst; now apply Hnoop].
    destruct (write_entry P st (ETruncate q p)) as [st1 r1] eqn:Ew.
    set (e1 := ETruncate q p) in *.
    assert (HM1 : cur0 + lenN (enc_of cur0 (entry_ser e1)) <= M).
    { destruct r1; cbn [map snd ResyncProofs.encs_of] in HM; rewrite lenN_app in HM; lia. }
    destruct (tinv_write_first st _ st1 r1 Ht HM1 Ew) as (-> & _ & Epol1 & Ht1).
    cbn [map snd ResyncProofs.encs_of] in HM |- *.
    destruct (truncate_head mqv p) as [mq' evicted]. cbn [fst] in *.
    set (st2 := set_qs st1 (qs_put (s_qs st1) q mq')) in *.
    destruct (run_gc_if_necessary P st2 hint) as [st3 [k|err]] eqn:Eg;
      [|inversion Hstep; subst; exfalso; eapply Hno; reflexivity].
    destruct (finish_gc st2 _ hint st3 k a Ht1) as (Epol3 & Hfin); [|exact Eg|].
    { rewrite lenN_app in HM. lia. }
    rewrite (pop_always st3 tick a) in Hstep by (rewrite Epol3; cbn [st2 set_qs s_pol]; congruence).
    inversion Hstep; subst st' out. exact Hfin.
  - (* ---------- persist ---------- *)
    inversion Hstep; subst st' out. cbn [map ResyncProofs.encs_of].
    exact (finish_plain st [] fsync Ht).
Qed.

End Ext.

(* ====================================================================== *)
(* 2. (1) the trace of a call from a state satisfying the restart invariant *)
(* ====================================================================== *)

Lemma encs_of_shift d es : d mod B = 0 -> forall a, encs_of (d + a) es = encs_of a es.
Proof.
  intros Hd. induction es as [|p ps IH]; intros a; cbn [ResyncProofs.encs_of]; [reflexivity|].
  rewrite (HW enc_of_shift d a p Hd). f_equal. rewrite <- N.add_assoc. apply IH.
Qed.

Lemma encs_of_between a c es :
  a <= c -> c <= ffp a -> es <> [] -> zerosN (c - a) ++ encs_of c es = encs_of a es.
Proof.
  intros H1 H2 Hne. destruct es as [|p ps]; [congruence|]. cbn [ResyncProofs.encs_of].
  rewrite app_assoc, (HW enc_of_between a c p H1 H2), (HW enc_of_between_len a c p H1 H2).
  reflexivity.
Qed.

(* the reference writer of a state satisfying PInv: its buffer is the part of the ghost stream
   held by the kept files, up to the cursor *)
Lemma pinv_setup w G :
  PInv P w G ->
  let dl := wlo w - gh_base G in
  let T := gh_T P G in
  let c := dl * FB + wpos P w in
  let buf := takeN (wpos P w) (wstream w) in
  lenN buf = wpos P w /\
  buf = dropN (dl * FB) (T ++ zerosN (c - lenN T)) /\
  wstream w = buf ++ zerosN (lenN (w_files w) * FB - wpos P w) /\
  wpos P w <= lenN (w_files w) * FB /\
  lenN (w_files w) + wlo w = w_file w + 1 /\ 1 <= lenN (w_files w).
Proof.
  intros (Hw & Hwd & Hnd & Hbase & Hc1 & Hc2 & Hs & _). cbn zeta in *.
  set (dl := wlo w - gh_base G) in *.
  set (T := gh_T P G) in *. set (a := lenN T) in *.
  set (n := lenN (w_files w)) in *.
  set (c := dl * FB + wpos P w) in *.
  pose proof Hw as (Hok & Hwf' & Hoff & _).
  destruct (wr_ok_len P HB0' HNB w Hok) as (Hn & Hn1). fold n in Hn, Hn1.
  pose proof (lenN_wstream P w Hw) as HlenS. fold n in HlenS.
  assert (Hpos : wpos P w = (n - 1) * FB + w_off w) by reflexivity.
  assert (Hposn : wpos P w <= n * FB) by nia.
  assert (Hcn : c <= (dl + n) * FB) by (unfold c; nia).
  split; [rewrite lenN_takeN, HlenS; lia|].
  assert (Ebuf : takeN (wpos P w) (wstream w) = dropN (dl * FB) (T ++ zerosN (c - a))).
  { rewrite Hs.
    replace (wpos P w) with (dl * FB + wpos P w - dl * FB) by lia.
    rewrite <- dropN_takeN. f_equal. fold c.
    rewrite takeN_app_ge by (fold a; lia). fold a. f_equal.
    apply takeN_zerosN. lia. }
  split; [exact Ebuf|].
  split.
  { rewrite <- (takeN_dropN (wpos P w) (wstream w)) at 1. f_equal.
    rewrite Hs, dropN_dropN. fold c. rewrite dropN_app_ge by (fold a; lia). fold a.
    rewrite dropN_zerosN. f_equal. lia. }
  split; [exact Hposn|]. split; assumption.
Qed.

Definition call_cursor (st : state) (G : ghost) : N :=
  (wlo (s_wr st) - gh_base G) * FB + wpos P (s_wr st).

(* NEW: the bytes of a call *)
Definition call_bytes (st : state) (G : ghost) (o : op) : bytes :=
  encs_of (call_cursor st G) (map entry_ser (map snd (step_log P st o))).

Theorem pinv_step_call_trace st G a o tick st' out :
  PInv P (s_wr st) G -> w_pending (s_wr st) = [] -> s_pol st = PAlways a ->
  stream_bound P G (map snd (step_log P st o)) ->
  step P st o tick = (st', out) -> (forall e, out <> OutIo e) ->
  let w := s_wr st in
  exists evs,
    c_ev (w_ctx (s_wr st')) = rev evs ++ c_ev (w_ctx w) /\
    c_fs (w_ctx (s_wr st')) = fold_left apply_event evs (c_fs (w_ctx w)) /\
    call_trace (wlo w) (w_file w) (w_off w) (call_bytes st G o)
               (w_file (s_wr st')) (w_off (s_wr st')) evs /\
    w_pending (s_wr st') = [].
Proof.
  intros HP Hp0 Hpol Hbound Hstep Hno w. subst w. set (w := s_wr st) in *.
  destruct (pinv_setup w G HP) as (Hlb & Ebuf & HS & Hposn & Hn & Hn1). cbn zeta in *.
  pose proof HP as (Hw & _ & _ & Hbase & Hc1 & Hc2 & _). cbn zeta in Hc1, Hc2.
  set (dl := wlo w - gh_base G) in *.
  set (T := gh_T P G) in *. set (a0 := lenN T) in *.
  set (c := dl * FB + wpos P w) in *.
  set (buf := takeN (wpos P w) (wstream w)) in *.
  set (X := map entry_ser (map snd (step_log P st o))) in *.
  assert (EX : encs_of (wpos P w) X = encs_of c X).
  { unfold c. symmetry. apply encs_of_shift. apply (mulFB_mod P HBS_lo HBS_hi HNB). }
  set (M := wpos P w + lenN (encs_of (wpos P w) X)).
  pose proof Hw as (Hok & Hwf' & Hoff & Hplan & Hu & Hfull & Hfresh).
  assert (HM : FB * wlo w + M <= FB * (U64_MAX + 1)).
  { unfold M. rewrite EX. destruct X as [|x X'] eqn:EXX.
    - cbn [ResyncProofs.encs_of]. rewrite (@lenN_nil byte).
      assert (FB * (wlo w + lenN (w_files w)) <= FB * (U64_MAX + 1)) by (apply N.mul_le_mono_l; lia).
      lia.
    - rewrite <- EXX in *.
      assert (Hne : X <> []) by (rewrite EXX; discriminate).
      unfold stream_bound in Hbound. rewrite map_app in Hbound. fold X in Hbound.
      rewrite (H3 cursor_after_app) in Hbound. fold (gh_ser G) in Hbound.
      rewrite cursor_after_0 in Hbound by assumption. fold (gh_T P G) in Hbound. fold T in Hbound.
      fold a0 in Hbound. unfold ResyncProofs.cursor_after in Hbound.
      rewrite <- (encs_of_between a0 c X Hc1 Hc2 Hne), lenN_app, lenN_zerosN in Hbound.
      replace (wlo w) with (gh_base G + dl) by lia. unfold c in *. nia. }
  assert (Hcur : exists b, fs_get (c_fs (w_ctx w)) (filename (w_file w)) = Some (FFile b)).
  { rewrite <- (vfs_nil w Hp0). destruct (wr_ok_files w Hok) as (pre & Hpre & _).
    destruct (Hfull (w_file w)) as (b & Hb & _); [rewrite Hpre; apply in_or_app; right; now left|].
    now exists b. }
  assert (Ht : tinv (c_ev (w_ctx w)) (c_fs (w_ctx w)) (w_file w) (w_off w) M buf (wlo w)
                    (wpos P w) w []).
  { unfold tinv, tsim. rewrite (@lenN_nil byte), N.add_0_r, app_nil_r.
    split.
    { split; [exact Hw|]. split; [reflexivity|]. split; [exact Hlb|]. split; [exact HS|exact HM]. }
    split; [reflexivity|]. exists []. split; [now rewrite app_nil_r|].
    exists [], []. cbn [rev app fold_left].
    split; [reflexivity|]. split; [reflexivity|]. split; [exact Hcur|].
    split; [|now rewrite Hp0].
    replace (os_pos w) with (w_off w); [constructor|].
    unfold os_pos. rewrite Hp0, (@lenN_nil byte). lia. }
  destruct (step_trace_rel _ _ _ _ M buf (wlo w) (wpos P w) st a o tick st' out Ht Hpol
              eq_refl eq_refl Hp0 eq_refl eq_refl (N.le_refl _) Hstep Hno)
    as (evs & Hev & Hfs & Hct & Hp').
  exists evs. fold X in Hct. rewrite EX in Hct.
  split; [exact Hev|]. split; [exact Hfs|]. split; [exact Hct|exact Hp'].
Qed.

Theorem step_call_trace st G a o tick st' out :
  Inv P st G -> w_pending (s_wr st) = [] -> s_pol st = PAlways a ->
  stream_bound P G (map snd (step_log P st o)) ->
  step P st o tick = (st', out) -> (forall e, out <> OutIo e) ->
  let w := s_wr st in
  exists evs,
    c_ev (w_ctx (s_wr st')) = rev evs ++ c_ev (w_ctx w) /\
    c_fs (w_ctx (s_wr st')) = fold_left apply_event evs (c_fs (w_ctx w)) /\
    call_trace (wlo w) (w_file w) (w_off w) (call_bytes st G o)
               (w_file (s_wr st')) (w_off (s_wr st')) evs /\
    w_pending (s_wr st') = [].
Proof. intros (HP & _). now apply pinv_step_call_trace. Qed.

(* ====================================================================== *)
(* 3. the directory after a crash prefix of the data writes               *)
(* ====================================================================== *)

(* what `open` does to a short last file: zero-extended to full size *)
Definition zext (fs : fsT) (n : N) : fsT :=
  fs_put fs (filename n) (FFile (set_len (fcontent fs n) FB)).

Definition full_file (fs : fsT) (n : N) : Prop :=
  exists b, fs_get fs (filename n) = Some (FFile b) /\ lenN b = FB.

(* file f is there, full size; the files after it, up to fmax, do not exist *)
Definition good (fs : fsT) (f fmax : N) : Prop :=
  full_file fs f /\ forall n, f < n -> n <= fmax -> fs_get fs (filename n) = None.

(* the file numbers f .. f1 *)
Definition nfiles (f f1 : N) : list N := iota f (S (N.to_nat (f1 - f))).

Lemma nfiles_same f : nfiles f f = [f].
Proof. unfold nfiles. now rewrite N.sub_diag. Qed.

Lemma nfiles_cons f f1 : f < f1 -> nfiles f f1 = f :: nfiles (f + 1) f1.
Proof.
  intros H. unfold nfiles. replace (N.to_nat (f1 - f)) with (S (N.to_nat (f1 - (f + 1)))) by lia.
  reflexivity.
Qed.

Lemma nfiles_In f f1 x : f <= f1 -> (In x (nfiles f f1) <-> f <= x <= f1).
Proof. intros H. unfold nfiles. rewrite iota_In. lia. Qed.

Lemma lenN_nfiles f f1 : f <= f1 -> lenN (nfiles f f1) = f1 - f + 1.
Proof. intros H. unfold nfiles. rewrite lenN_iota. lia. Qed.

Lemma iota_app a : forall lo b, iota lo (a + b) = iota lo a ++ iota (lo + N.of_nat a) b.
Proof.
  induction a as [|a IH]; intros lo b; cbn [Nat.add iota app].
  - f_equal. lia.
  - f_equal. rewrite IH. do 2 f_equal. lia.
Qed.

Lemma nfiles_split lo f f1 : lo <= f -> f <= f1 ->
  nfiles lo f1 = iota lo (N.to_nat (f - lo)) ++ nfiles f f1.
Proof.
  intros H1 H2. unfold nfiles.
  replace (S (N.to_nat (f1 - lo))) with (N.to_nat (f - lo) + S (N.to_nat (f1 - f)))%nat by lia.
  rewrite iota_app. do 2 f_equal. lia.
Qed.

Lemma set_len_full b : lenN b = FB -> set_len b FB = b.
Proof.
  intros H. unfold set_len. destruct (N.leb_spec FB (lenN b)) as [_|Hlt]; [|lia].
  apply takeN_all. lia.
Qed.

Lemma set_len_nil : set_len [] FB = zerosN FB.
Proof.
  unfold set_len. rewrite (@lenN_nil byte).
  destruct (N.leb_spec FB 0) as [Hle|_]; [pose proof FB_pos; lia|].
  now rewrite N.sub_0_r.
Qed.

Lemma fcontent_get fs n b : fs_get fs (filename n) = Some (FFile b) -> fcontent fs n = b.
Proof. intros H. unfold fcontent. now rewrite H. Qed.

Lemma fcontent_ext fs fs' n :
  fs_get fs' (filename n) = fs_get fs (filename n) -> fcontent fs' n = fcontent fs n.
Proof. intros H. unfold fcontent. now rewrite H. Qed.

Lemma fcontent_zext_same fs n : fcontent (zext fs n) n = set_len (fcontent fs n) FB.
Proof. unfold zext. now apply fcontent_put_same. Qed.

Lemma fcontent_zext_other fs n n' :
  n <= U64_MAX -> n' <= U64_MAX -> n <> n' -> fcontent (zext fs n) n' = fcontent fs n'.
Proof. intros H1 H2 H3. unfold zext. apply fcontent_put_other. now apply filename_neq. Qed.

(* dropping beyond a prefix of known length *)
Lemma dropN_app_len {A} n (a a' b : list A) :
  lenN a = lenN a' -> lenN a <= n -> dropN n (a ++ b) = dropN n (a' ++ b).
Proof. intros H1 H2. rewrite !dropN_app_ge by lia. now rewrite H1. Qed.

(* img_ok fs f off img D1 f1 short: img is fs with the bytes D1 written from offset off of
   file f on, into the files f .. f1 (the files after f newly created, zero-filled); if short,
   the last one has just been created and is still empty *)
Definition img_ok (fs : fsT) (f off : N) (img : fsT) (D1 : bytes) (f1 : N) (short : bool) : Prop :=
  f <= f1 /\
  (forall name, (forall n, f <= n <= f1 -> name <> filename n) -> fs_get img name = fs_get fs name) /\
  (forall n, f <= n <= f1 ->
     exists b, fs_get img (filename n) = Some (FFile b) /\
               lenN b = if short && (n =? f1) then 0 else FB) /\
  (short = true -> f < f1) /\
  stream_of (zext img f1) (nfiles f f1) =
    takeN off (fcontent fs f) ++ D1 ++
    dropN (off + lenN D1) (fcontent fs f ++ zerosN ((f1 - f) * FB)).

Lemma img_base fs f off fmax :
  good fs f fmax -> img_ok fs f off fs [] f false.
Proof.
  intros ((b & Hb & Hlen) & _). unfold img_ok.
  split; [lia|]. split; [auto|].
  split.
  { intros n Hn. assert (n = f) by lia. subst n. exists b. cbn [andb]. auto. }
  split; [discriminate|].
  rewrite nfiles_same, stream_of_cons. unfold stream_of at 1. cbn [flat_map]. rewrite app_nil_r.
  rewrite fcontent_zext_same, (fcontent_get _ _ _ Hb), (set_len_full _ Hlen).
  rewrite N.sub_diag, N.mul_0_l. change (zerosN 0) with (@nil byte).
  rewrite (@lenN_nil byte), N.add_0_r, app_nil_r. cbn [app]. now rewrite takeN_dropN.
Qed.

(* one complete write into file f *)
Lemma img_write_step fs f off d fmax :
  good fs f fmax -> f <= fmax -> fmax <= U64_MAX -> off + lenN d <= FB ->
  let fs1 := apply_event fs (EvWrite (filename f) off d) in
  good fs1 f fmax /\
  forall img D1 f1 short,
    img_ok fs1 f (off + lenN d) img D1 f1 short -> img_ok fs f off img (d ++ D1) f1 short.
Proof.
  intros ((b & Hb & Hlen) & Hfresh) Hf Hmax Hfit fs1.
  assert (E1 : fs1 = fs_put fs (filename f) (FFile (write_at b off d))).
  { unfold fs1. cbn [apply_event]. now rewrite Hb. }
  assert (Hb1 : fs_get fs1 (filename f) = Some (FFile (write_at b off d))).
  { rewrite E1. apply PolicyProofs.fs_get_put_same. }
  split.
  { split.
    - exists (write_at b off d). split; [exact Hb1|]. rewrite lenN_write_at_inside; lia.
    - intros n H1 H2. rewrite E1, GcProofs.fs_get_put_other by (apply filename_neq; lia).
      now apply Hfresh. }
  intros img D1 f1 short (Hle & Hoth & Hfiles & Hshort & Hstr).
  split; [exact Hle|].
  split.
  { intros name Hname. rewrite (Hoth name Hname), E1.
    apply GcProofs.fs_get_put_other. intros E. apply (Hname f); [lia|now symmetry]. }
  split; [exact Hfiles|]. split; [exact Hshort|].
  rewrite Hstr, (fcontent_get _ _ _ Hb1), (fcontent_get _ _ _ Hb).
  rewrite write_at_inside by lia.
  rewrite (app_assoc (takeN off b) d), takeN_app_exact'
    by (rewrite lenN_app, lenN_takeN; lia).
  rewrite <- !app_assoc. do 3 f_equal.
  rewrite lenN_app.
  replace (off + lenN d + lenN D1) with (off + (lenN d + lenN D1)) by lia.
  rewrite (app_assoc (takeN off b) d).
  transitivity (dropN (off + (lenN d + lenN D1))
                  (takeN (off + lenN d) b ++ dropN (off + lenN d) b ++ zerosN ((f1 - f) * FB))).
  - apply dropN_app_len; rewrite ?lenN_app, !lenN_takeN; lia.
  - now rewrite app_assoc, takeN_dropN.
Qed.

(* the crash between create_new and set_len *)
Lemma img_short fs f fmax :
  good fs f fmax -> f + 1 <= fmax -> fmax <= U64_MAX ->
  img_ok fs f FB (fs_put fs (filename (f + 1)) (FFile [])) [] (f + 1) true.
Proof.
  intros ((b & Hb & Hlen) & Hfresh) Hf Hmax.
  set (img := fs_put fs (filename (f + 1)) (FFile [])).
  assert (Hnf : filename (f + 1) <> filename f) by (apply filename_neq; lia).
  assert (Hbi : fs_get img (filename f) = Some (FFile b)).
  { unfold img. now rewrite GcProofs.fs_get_put_other. }
  assert (Hni : fs_get img (filename (f + 1)) = Some (FFile [])).
  { apply PolicyProofs.fs_get_put_same. }
  split; [lia|].
  split.
  { intros name Hname. unfold img. apply GcProofs.fs_get_put_other.
    intros E. apply (Hname (f + 1)); [lia|now symmetry]. }
  split.
  { intros n Hn. destruct (N.eq_dec n f) as [->|Hne].
    - exists b. split; [exact Hbi|].
      destruct (N.eqb_spec f (f + 1)) as [E|_]; [lia|]. exact Hlen.
    - assert (n = f + 1) by lia. subst n. exists []. split; [exact Hni|].
      now rewrite N.eqb_refl. }
  split; [lia|].
  rewrite nfiles_cons by lia. rewrite nfiles_same, !stream_of_cons.
  unfold stream_of at 1. cbn [flat_map]. rewrite app_nil_r.
  rewrite fcontent_zext_same, fcontent_zext_other by lia.
  rewrite (fcontent_get _ _ _ Hbi), (fcontent_get _ _ _ Hni), (fcontent_get _ _ _ Hb), set_len_nil.
  rewrite (@lenN_nil byte), N.add_0_r. cbn [app].
  rewrite takeN_all by lia. rewrite dropN_app_exact' by exact Hlen.
  do 2 f_equal. lia.
Qed.

(* the roll-over to the next file *)
Lemma img_roll_step fs f fmax :
  good fs f fmax -> f + 1 <= fmax -> fmax <= U64_MAX ->
  let fs2 := fold_left apply_event (roll_group f) fs in
  good fs2 (f + 1) fmax /\
  forall img D1 f1 short, f1 <= fmax ->
    img_ok fs2 (f + 1) 0 img D1 f1 short -> img_ok fs f FB img D1 f1 short.
Proof.
  intros ((b & Hb & Hlen) & Hfresh) Hf Hmax fs2.
  assert (E2 : fs2 = fs_put (fs_put fs (filename (f + 1)) (FFile [])) (filename (f + 1))
                            (FFile (zerosN FB))).
  { unfold fs2, roll_group. cbn [fold_left apply_event].
    now rewrite PolicyProofs.fs_get_put_same, set_len_nil. }
  assert (Hnf : filename (f + 1) <> filename f) by (apply filename_neq; lia).
  assert (Hz : fs_get fs2 (filename (f + 1)) = Some (FFile (zerosN FB))).
  { rewrite E2. apply PolicyProofs.fs_get_put_same. }
  assert (Hoth2 : forall name, name <> filename (f + 1) -> fs_get fs2 name = fs_get fs name).
  { intros name Hne. rewrite E2.
    rewrite !GcProofs.fs_get_put_other by (intros E; apply Hne; now symmetry). reflexivity. }
  split.
  { split.
    - exists (zerosN FB). split; [exact Hz|apply lenN_zerosN].
    - intros n H1 H2. rewrite Hoth2 by (apply filename_neq; lia). apply Hfresh; lia. }
  intros img D1 f1 short Hf1 (Hle & Hoth & Hfiles & Hshort & Hstr).
  assert (Hbf : fs_get img (filename f) = Some (FFile b)).
  { rewrite Hoth; [|intros n Hn; apply filename_neq; lia].
    rewrite Hoth2; [exact Hb|congruence]. }
  split; [lia|].
  split.
  { intros name Hname. rewrite Hoth.
    - apply Hoth2. intros E. apply (Hname (f + 1)); [lia|exact E].
    - intros n Hn. apply Hname. lia. }
  split.
  { intros n Hn. destruct (N.eq_dec n f) as [->|Hne].
    - exists b. split; [exact Hbf|].
      destruct (N.eqb_spec f f1) as [E|_]; [lia|]. rewrite andb_false_r. exact Hlen.
    - apply Hfiles. lia. }
  split; [lia|].
  rewrite nfiles_cons by lia. rewrite stream_of_cons, Hstr.
  rewrite fcontent_zext_other by lia.
  rewrite (fcontent_get _ _ _ Hbf), (fcontent_get _ _ _ Hz), (fcontent_get _ _ _ Hb).
  rewrite takeN_0, N.add_0_l. cbn [app].
  rewrite takeN_all by lia. do 2 f_equal.
  rewrite (dropN_app_ge (FB + lenN D1) b) by lia. rewrite Hlen.
  replace (FB + lenN D1 - FB) with (lenN D1) by lia.
  rewrite <- zerosN_app. do 2 f_equal.
  replace (f1 - f) with (f1 - (f + 1) + 1) by lia. lia.
Qed.

(* the directory after the complete data writes of a call *)
Lemma wtrace_img_full f off evs D f' off' :
  wtrace f off evs D f' off' ->
  forall fs fmax, good fs f fmax -> f' <= fmax -> fmax <= U64_MAX ->
  img_ok fs f off (fold_left apply_event evs fs) D f' false.
Proof.
  induction 1 as [f off|f off d evs D f' off' Hfit Htr IH|f evs D f' off' Htr IH];
    intros fs fmax Hgood Hf' Hmax.
  - cbn [fold_left]. now apply (img_base fs f off fmax).
  - pose proof (wtrace_le _ _ _ _ _ _ Htr) as Hle.
    destruct (img_write_step fs f off d fmax Hgood ltac:(lia) Hmax Hfit) as (Hgood1 & Hstep).
    cbn [fold_left]. apply Hstep. now apply (IH _ fmax).
  - pose proof (wtrace_le _ _ _ _ _ _ Htr) as Hle.
    destruct (img_roll_step fs f fmax Hgood ltac:(lia) Hmax) as (Hgood2 & Hstep).
    rewrite fold_left_app. apply Hstep; [exact Hf'|]. now apply (IH _ fmax).
Qed.

(* the directory after a crash prefix of the data writes *)
Lemma wtrace_img_pre f off evs D f' off' :
  wtrace f off evs D f' off' ->
  forall pe fs fmax, cpre pe evs -> good fs f fmax -> f' <= fmax -> fmax <= U64_MAX ->
  exists f1 short,
    f1 <= f' /\ img_ok fs f off (fold_left apply_event pe fs) (ev_data pe) f1 short.
Proof.
  induction 1 as [f off|f off d evs D f' off' Hfit Htr IH|f evs D f' off' Htr IH];
    intros pe fs fmax Hpe Hgood Hf' Hmax.
  - inversion Hpe; subst. exists f, false. split; [lia|]. now apply (img_base fs f off fmax).
  - pose proof (wtrace_le _ _ _ _ _ _ Htr) as Hle.
    inversion Hpe as [evs0|n off1 d1 k evs0|e pe' evs0 Hpe']; subst.
    + exists f, false. split; [lia|]. now apply (img_base fs f off fmax).
    + exists f, false. split; [lia|]. cbn [fold_left ev_data].
      assert (Hk : off + lenN (takeN k d) <= FB) by (rewrite lenN_takeN; lia).
      destruct (img_write_step fs f off (takeN k d) fmax Hgood ltac:(lia) Hmax Hk) as (Hgood1 & Hstep).
      apply Hstep. now apply (img_base _ f _ fmax).
    + destruct (img_write_step fs f off d fmax Hgood ltac:(lia) Hmax Hfit) as (Hgood1 & Hstep).
      destruct (IH pe' _ fmax Hpe' Hgood1 Hf' Hmax) as (f1 & short & Hf1 & Hok).
      exists f1, short. split; [exact Hf1|]. cbn [fold_left ev_data]. now apply Hstep.
  - pose proof (wtrace_le _ _ _ _ _ _ Htr) as Hle.
    assert (Hbase : img_ok fs f FB fs [] f false) by now apply (img_base fs f FB fmax).
    unfold roll_group in Hpe. cbn [app] in Hpe.
    inversion Hpe as [|?|e1 pe1 ? Hpe1]; subst; [exists f, false; split; [lia|exact Hbase]|].
    inversion Hpe1 as [|?|e2 pe2 ? Hpe2]; subst; [exists f, false; split; [lia|exact Hbase]|].
    inversion Hpe2 as [|?|e3 pe3 ? Hpe3]; subst; [exists f, false; split; [lia|exact Hbase]|].
    inversion Hpe3 as [|?|e4 pe4 ? Hpe4]; subst; [exists f, false; split; [lia|exact Hbase]|].
    inversion Hpe4 as [|?|e5 pe5 ? Hpe5]; subst.
    + exists (f + 1), true. split; [lia|]. cbn [fold_left apply_event ev_data].
      apply (img_short fs f fmax Hgood); lia.
    + destruct (img_roll_step fs f fmax Hgood ltac:(lia) Hmax) as (Hgood2 & Hstep).
      destruct (IH pe5 _ fmax Hpe5 Hgood2 Hf' Hmax) as (f1 & short & Hf1 & Hok).
      exists f1, short. split; [exact Hf1|].
      change (fold_left apply_event (EvFlush (filename f) :: EvSyncData (filename f) :: EvSyncDir ::
                EvCreate (filename (f + 1)) :: EvSetLen (filename (f + 1)) FB :: pe5) fs)
        with (fold_left apply_event pe5 (fold_left apply_event (roll_group f) fs)).
      cbn [ev_data]. apply Hstep; [lia|exact Hok].
Qed.

(* ---------- the unlinked prefix, and the stream of all the files ---------- *)
Lemma fs_get_removed dropped : forall fs n,
  In n dropped -> fs_get (remove_files fs dropped) (filename n) = None.
Proof.
  unfold remove_files. induction dropped as [|d r IH]; intros fs n Hin; [destruct Hin|].
  cbn [fold_left]. destruct (N.eq_dec d n) as [->|Hne].
  - apply (fs_get_remove_files_none r). apply GcProofs.fs_get_remove_same.
  - apply IH. destruct Hin as [E|Hin]; [contradiction|exact Hin].
Qed.

Lemma assemble fs0 lo f0 off0 imgW D1 f1 short (mu : nat) :
  lo <= f0 -> f1 <= U64_MAX ->
  (forall n, lo <= n <= f0 -> full_file fs0 n) ->
  dir_of fs0 (nfiles lo f0) ->
  img_ok fs0 f0 off0 imgW D1 f1 short ->
  lo + N.of_nat mu <= f1 ->
  let img := remove_files imgW (iota lo mu) in
  let lo' := lo + N.of_nat mu in
  let S0 := stream_of fs0 (nfiles lo f0) in
  let pos0 := (f0 - lo) * FB + off0 in
  dir_of img (nfiles lo' f1) /\
  (forall n, lo' <= n <= f1 ->
     exists b, fs_get img (filename n) = Some (FFile b) /\
               lenN b = if short && (n =? f1) then 0 else FB) /\
  stream_of (zext img f1) (nfiles lo' f1) =
    dropN (N.of_nat mu * FB)
      (takeN pos0 S0 ++ D1 ++ dropN (pos0 + lenN D1) (S0 ++ zerosN ((f1 - f0) * FB))).
Proof.
  intros Hlo Hmax Hfull Hdir (Hle & Hoth & Hfiles & Hshort & Hstr) Hmu img lo' S0 pos0.
  (* A. every file lo .. f1 of imgW *)
  assert (HoldW : forall n, n <= U64_MAX -> ~ (f0 <= n <= f1) ->
            fs_get imgW (filename n) = fs_get fs0 (filename n)).
  { intros n Hn Hout. apply Hoth. intros m Hm. apply filename_neq; lia. }
  assert (HA : forall n, lo <= n <= f1 ->
            exists b, fs_get imgW (filename n) = Some (FFile b) /\
                      lenN b = if short && (n =? f1) then 0 else FB).
  { intros n Hn. destruct (N.lt_ge_cases n f0) as [Hlt|Hge].
    - rewrite HoldW by lia. destruct (Hfull n ltac:(lia)) as (b & Hb & Hl). exists b.
      split; [exact Hb|]. destruct (N.eqb_spec n f1) as [E|_]; [lia|]. now rewrite andb_false_r.
    - apply Hfiles. lia. }
  (* B. the removal *)
  assert (HB : forall n, n <= U64_MAX -> ~ (lo <= n < lo') ->
            fs_get img (filename n) = fs_get imgW (filename n)).
  { intros n Hn Hout. unfold img. apply fs_get_remove_files_other.
    intros y Hy. apply iota_In in Hy. apply filename_neq; lia. }
  assert (HBn : forall n, lo <= n < lo' -> fs_get img (filename n) = None).
  { intros n Hn. unfold img. apply fs_get_removed. apply iota_In. lia. }
  split.
  { (* C. the listing *)
    intros n Hn. rewrite nfiles_In by lia. split.
    - intros (b & Hb). destruct (N.lt_ge_cases n lo) as [Hlt|Hge0].
      + rewrite HB, HoldW in Hb by lia.
        assert (Hin : In n (nfiles lo f0)) by (apply (Hdir n Hn); now exists b).
        apply nfiles_In in Hin; lia.
      + destruct (N.lt_ge_cases n lo') as [Hlt'|Hge'].
        * rewrite HBn in Hb by lia. discriminate.
        * split; [exact Hge'|]. destruct (N.le_gt_cases n f1) as [H1|H1]; [exact H1|].
          rewrite HB, HoldW in Hb by lia.
          assert (Hin : In n (nfiles lo f0)) by (apply (Hdir n Hn); now exists b).
          apply nfiles_In in Hin; lia.
    - intros Hin. rewrite HB by lia. destruct (HA n ltac:(lia)) as (b & Hb & _). now exists b. }
  split.
  { intros n Hn. rewrite HB by lia. apply HA. lia. }
  (* D. the stream *)
  set (Z := zerosN ((f1 - f0) * FB)).
  set (b0 := fcontent fs0 f0) in *.
  set (Spre := stream_of fs0 (iota lo (N.to_nat (f0 - lo)))).
  assert (HlenSpre : lenN Spre = (f0 - lo) * FB).
  { unfold Spre. rewrite (lenN_stream_of fs0 FB).
    - rewrite lenN_iota. lia.
    - intros n Hn. apply iota_In in Hn. destruct (Hfull n ltac:(lia)) as (b & Hb & Hl).
      now rewrite (fcontent_get _ _ _ Hb). }
  assert (ES0 : S0 = Spre ++ b0).
  { unfold S0. rewrite (nfiles_split lo f0 f0) by lia. rewrite stream_of_app, nfiles_same.
    unfold stream_of at 2. cbn [flat_map]. now rewrite app_nil_r. }
  (* the stream of all the files lo .. f1 of imgW *)
  assert (ESW : stream_of (zext imgW f1) (nfiles lo f1) =
                takeN pos0 S0 ++ D1 ++ dropN (pos0 + lenN D1) (S0 ++ Z)).
  { rewrite (nfiles_split lo f0 f1) by lia. rewrite stream_of_app, Hstr. fold b0. fold Z.
    replace (stream_of (zext imgW f1) (iota lo (N.to_nat (f0 - lo)))) with Spre.
    - rewrite ES0. unfold pos0. rewrite <- HlenSpre.
      rewrite takeN_app_ge by lia. replace (lenN Spre + off0 - lenN Spre) with off0 by lia.
      rewrite <- !app_assoc. do 3 f_equal.
      rewrite (dropN_app_ge _ Spre) by lia. f_equal. lia.
    - unfold Spre. symmetry. apply stream_of_ext. intros n Hn. apply iota_In in Hn.
      destruct (N.eq_dec f1 n) as [<-|Hne]; [lia|].
      rewrite fcontent_zext_other by lia. apply fcontent_ext. apply HoldW; lia. }
  rewrite <- ESW.
  replace (nfiles lo f1) with (iota lo mu ++ nfiles lo' f1).
  2:{ rewrite (nfiles_split lo lo' f1) by lia. do 2 f_equal. lia. }
  rewrite stream_of_app. rewrite dropN_app_exact'.
  - apply stream_of_ext. intros n Hn. apply nfiles_In in Hn; [|lia].
    destruct (N.eq_dec f1 n) as [<-|Hne].
    + rewrite !fcontent_zext_same. f_equal. apply fcontent_ext. apply HB; lia.
    + rewrite !fcontent_zext_other by lia. apply fcontent_ext. apply HB; lia.
  - rewrite (lenN_stream_of _ FB); [rewrite lenN_iota; lia|].
    intros n Hn. apply iota_In in Hn.
    rewrite fcontent_zext_other by lia.
    destruct (HA n ltac:(lia)) as (b & Hb & Hl). rewrite (fcontent_get _ _ _ Hb).
    destruct (N.eqb_spec n f1) as [E|_]; [lia|]. now rewrite andb_false_r in Hl.
Qed.

(* ---------- crash prefixes of the tail of the trace: flush groups and unlinks ---------- *)
Definition noop_ev (e : event) : Prop :=
  match e with EvFlush _ | EvSyncData _ | EvSyncDir => True | _ => False end.

Lemma noop_cpre l pt : Forall noop_ev l -> cpre pt l -> Forall noop_ev pt.
Proof.
  intros Hl Hc. induction Hc as [evs|n off d k evs|e pe evs _ IH].
  - constructor.
  - inversion Hl as [|? ? H _]; subst. destruct H.
  - inversion Hl; subst. constructor; auto.
Qed.

Lemma noop_fold pt : Forall noop_ev pt ->
  (forall fs, fold_left apply_event pt fs = fs) /\ ev_data pt = [].
Proof.
  induction 1 as [|e pt He _ [IH1 IH2]]; [split; reflexivity|].
  destruct e; try destruct He; cbn [fold_left apply_event ev_data]; auto.
Qed.

Lemma flush_group_noop f a : Forall noop_ev (flush_group f a).
Proof. destruct a; repeat constructor. Qed.

Lemma unlinks_data lo m : ev_data (unlinks lo m) = [].
Proof. unfold unlinks. generalize (iota lo m). induction l; [reflexivity|exact IHl]. Qed.

Lemma cpre_unlinks m : forall lo pt,
  cpre pt (unlinks lo m) -> exists mu, (mu <= m)%nat /\ pt = unlinks lo mu.
Proof.
  induction m as [|m IH]; intros lo pt H.
  - inversion H; subst. exists 0%nat. split; [lia|reflexivity].
  - unfold unlinks in H. cbn [iota map] in H.
    inversion H as [| |e pe evs H']; subst; [exists 0%nat; split; [lia|reflexivity]|].
    destruct (IH _ _ H') as (mu & Hmu & ->). exists (S mu). split; [lia|reflexivity].
Qed.

Lemma tail_prefix f a lo m a' pt :
  cpre pt (flush_group f a ++ unlinks lo m ++ flush_group f a') ->
  exists mu, (mu <= m)%nat /\
    (forall fs, fold_left apply_event pt fs = remove_files fs (iota lo mu)) /\ ev_data pt = [].
Proof.
  intros H. destruct (cpre_app_inv _ _ _ H) as [H1|(pt2 & -> & H2)].
  - destruct (noop_fold _ (noop_cpre _ _ (flush_group_noop f a) H1)) as [F1 F2].
    exists 0%nat. split; [lia|]. split; [exact F1|exact F2].
  - destruct (noop_fold _ (flush_group_noop f a)) as [G1 G2].
    destruct (cpre_app_inv _ _ _ H2) as [H3|(pt3 & -> & H3)].
    + destruct (cpre_unlinks _ _ _ H3) as (mu & Hmu & ->). exists mu. split; [exact Hmu|].
      split.
      * intros fs. rewrite fold_left_app, G1. unfold unlinks. apply fold_unlinks.
      * now rewrite ev_data_app, G2, unlinks_data.
    + destruct (noop_fold _ (noop_cpre _ _ (flush_group_noop f a') H3)) as [F1 F2].
      exists m. split; [lia|]. split.
      * intros fs. rewrite !fold_left_app, G1, F1. unfold unlinks. apply fold_unlinks.
      * now rewrite !ev_data_app, G2, unlinks_data, F2.
Qed.

Lemma call_trace_data lo f0 off0 NEW f1 off1 evs :
  call_trace lo f0 off0 NEW f1 off1 evs -> ev_data evs = NEW.
Proof.
  intros [E _ _|wevs a Htr|wevs m a Htr _].
  - now rewrite E.
  - rewrite ev_data_app, (wtrace_data _ _ _ _ _ _ Htr).
    rewrite (proj2 (noop_fold _ (flush_group_noop f1 a))). apply app_nil_r.
  - rewrite !ev_data_app, (wtrace_data _ _ _ _ _ _ Htr), unlinks_data.
    rewrite !(proj2 (noop_fold _ (flush_group_noop f1 _))). apply app_nil_r.
Qed.

(* the directory after a crash prefix of a whole call *)
Lemma call_trace_img lo f0 off0 NEW f1 off1 evs :
  call_trace lo f0 off0 NEW f1 off1 evs ->
  forall pe fs0 fmax, cpre pe evs -> good fs0 f0 fmax -> lo <= f0 -> f1 <= fmax -> fmax <= U64_MAX ->
  exists imgW fc short mu,
    img_ok fs0 f0 off0 imgW (ev_data pe) fc short /\ fc <= f1 /\ lo + N.of_nat mu <= fc /\
    fold_left apply_event pe fs0 = remove_files imgW (iota lo mu) /\
    (mu <> 0%nat -> ev_data pe = NEW /\ short = false).
Proof.
  intros Hct pe fs0 fmax Hpe Hgood Hlo Hf1 Hmax.
  assert (Hfull : forall wevs, wtrace f0 off0 wevs NEW f1 off1 ->
            forall pt mu, (forall fs, fold_left apply_event pt fs = remove_files fs (iota lo mu)) ->
            ev_data pt = [] -> lo + N.of_nat mu <= f1 ->
            exists imgW fc short mu,
              img_ok fs0 f0 off0 imgW (ev_data (wevs ++ pt)) fc short /\ fc <= f1 /\
              lo + N.of_nat mu <= fc /\
              fold_left apply_event (wevs ++ pt) fs0 = remove_files imgW (iota lo mu) /\
              (mu <> 0%nat -> ev_data (wevs ++ pt) = NEW /\ short = false)).
  { intros wevs Htr pt mu Hfold Hdata Hmu.
    exists (fold_left apply_event wevs fs0), f1, false, mu.
    rewrite ev_data_app, Hdata, app_nil_r, (wtrace_data _ _ _ _ _ _ Htr).
    split; [exact (wtrace_img_full _ _ _ _ _ _ Htr fs0 fmax Hgood Hf1 Hmax)|].
    split; [lia|]. split; [exact Hmu|]. split; [now rewrite fold_left_app, Hfold|auto]. }
  assert (Hpart : forall wevs, wtrace f0 off0 wevs NEW f1 off1 -> cpre pe wevs ->
            exists imgW fc short mu,
              img_ok fs0 f0 off0 imgW (ev_data pe) fc short /\ fc <= f1 /\
              lo + N.of_nat mu <= fc /\
              fold_left apply_event pe fs0 = remove_files imgW (iota lo mu) /\
              (mu <> 0%nat -> ev_data pe = NEW /\ short = false)).
  { intros wevs Htr Hc.
    destruct (wtrace_img_pre _ _ _ _ _ _ Htr pe fs0 fmax Hc Hgood Hf1 Hmax)
      as (fc & short & Hfc & Hok).
    exists (fold_left apply_event pe fs0), fc, short, 0%nat.
    split; [exact Hok|]. split; [exact Hfc|]. destruct Hok as (Hle & _).
    split; [lia|]. split; [reflexivity|]. intros H; now destruct H. }
  destruct Hct as [E -> ->|wevs a Htr|wevs m a Htr Hm].
  - inversion Hpe; subst. exists fs0, f0, false, 0%nat. cbn [ev_data fold_left].
    split; [now apply (img_base fs0 f0 off0 fmax)|]. split; [lia|]. split; [lia|].
    split; [reflexivity|]. intros H; now destruct H.
  - destruct (cpre_app_inv _ _ _ Hpe) as [Hc|(pt & -> & Hc)]; [now apply (Hpart wevs)|].
    destruct (noop_fold _ (noop_cpre _ _ (flush_group_noop f1 a) Hc)) as [F1 F2].
    apply (Hfull wevs Htr pt 0%nat); [exact F1|exact F2|].
    pose proof (wtrace_le _ _ _ _ _ _ Htr). lia.
  - destruct (cpre_app_inv _ _ _ Hpe) as [Hc|(pt & -> & Hc)]; [now apply (Hpart wevs)|].
    destruct (tail_prefix _ _ _ _ _ _ Hc) as (mu & Hmu & F1 & F2).
    apply (Hfull wevs Htr pt mu); [exact F1|exact F2|lia].
Qed.

(* ====================================================================== *)
(* 4. (2) the crash images of a call                                      *)
(* ====================================================================== *)

Lemma lenN_set_len b n : lenN (set_len b n) = n.
Proof.
  unfold set_len. destruct (N.leb_spec n (lenN b)).
  - rewrite lenN_takeN. lia.
  - rewrite lenN_app, lenN_zerosN. lia.
Qed.

Lemma img_ok_len fs f off img D1 f1 short :
  img_ok fs f off img D1 f1 short -> full_file fs f -> off <= FB -> f1 <= U64_MAX ->
  off + lenN D1 <= (f1 - f + 1) * FB.
Proof.
  intros (Hle & _ & Hfiles & _ & Hstr) (b & Hb & Hlen) Hoff Hmax.
  apply (f_equal lenN) in Hstr.
  rewrite (lenN_stream_of _ FB) in Hstr.
  2:{ intros n Hn. apply nfiles_In in Hn; [|lia]. destruct (N.eq_dec f1 n) as [<-|Hne].
      - rewrite fcontent_zext_same. apply lenN_set_len.
      - rewrite fcontent_zext_other by lia. destruct (Hfiles n Hn) as (b' & Hb' & Hl').
        rewrite (fcontent_get _ _ _ Hb'). destruct (N.eqb_spec n f1) as [E|_]; [lia|].
        now rewrite andb_false_r in Hl'. }
  rewrite lenN_nfiles in Hstr by lia. rewrite (fcontent_get _ _ _ Hb) in Hstr.
  rewrite !lenN_app, lenN_takeN, lenN_dropN, lenN_app, lenN_zerosN, Hlen in Hstr.
  rewrite N.min_l in Hstr by exact Hoff.
  replace ((f1 - f + 1) * FB) with ((f1 - f) * FB + FB) in * by lia.
  set (x := (f1 - f) * FB) in *. clearbody x. clear - Hstr. lia.
Qed.

Lemma apply_event_nodup fs e : nodup_keys fs -> nodup_keys (apply_event fs e).
Proof.
  intros H. destruct e; cbn [apply_event]; try exact H.
  - now apply nodup_keys_put.
  - destruct (fs_get fs name) as [[]|]; try exact H. now apply nodup_keys_put.
  - destruct (fs_get fs name) as [[]|]; try exact H. now apply nodup_keys_put.
  - now apply nodup_keys_remove.
Qed.

Lemma fold_nodup evs : forall fs, nodup_keys fs -> nodup_keys (fold_left apply_event evs fs).
Proof.
  induction evs as [|e evs IH]; intros fs H; cbn [fold_left]; [exact H|].
  apply IH. now apply apply_event_nodup.
Qed.

(* from the stream of the kept files to the ghost stream *)
Lemma stream_to_ghost (buf T D1 : bytes) (c0 dl pos0 nFB e m : N) :
  lenN buf = pos0 -> lenN T <= c0 -> c0 = dl * FB + pos0 ->
  buf = dropN (dl * FB) (T ++ zerosN (c0 - lenN T)) ->
  pos0 <= nFB -> pos0 + lenN D1 <= nFB + e ->
  let S0 := buf ++ zerosN (nFB - pos0) in
  dropN m (takeN pos0 S0 ++ D1 ++ dropN (pos0 + lenN D1) (S0 ++ zerosN e)) =
  dropN (dl * FB + m)
        (T ++ zerosN (c0 - lenN T) ++ D1 ++ zerosN (nFB + e - pos0 - lenN D1)).
Proof.
  intros Hlb Ha Hc0 Ebuf Hpos Hl S0. unfold S0.
  rewrite takeN_app_exact' by exact Hlb.
  rewrite <- (app_assoc buf), (dropN_app_ge (pos0 + lenN D1) buf) by lia.
  rewrite <- FileStream.zerosN_app, dropN_zerosN.
  replace (nFB - pos0 + e - (pos0 + lenN D1 - lenN buf)) with (nFB + e - pos0 - lenN D1) by lia.
  rewrite Ebuf.
  rewrite <- (dropN_app_le (dl * FB) (T ++ zerosN (c0 - lenN T)))
    by (rewrite lenN_app, lenN_zerosN; lia).
  rewrite dropN_dropN, <- app_assoc. reflexivity.
Qed.

(* what Directory::open lists in such a directory *)
Lemma dir_listing fs lo hi :
  nodup_keys fs -> dir_of fs (nfiles lo hi) -> lo <= hi -> hi <= U64_MAX ->
  list_wal_numbers fs = nfiles lo hi.
Proof.
  intros Hnd Hdir Hle Hmax.
  set (w := mkWr (ctx_init fs None) (nfiles lo hi) hi 0 []).
  apply (dir_ok_listing w); [exact Hnd| |exact Hdir|exact Hmax].
  split.
  - apply contiguous_iota. exists lo, (N.to_nat (hi - lo)). reflexivity.
  - unfold w, nfiles. cbn [w_files w_file]. rewrite (iota_last P HBS_lo HBS_hi HNB). f_equal. lia.
Qed.

Theorem crash_image_shape st G a o tick st' out :
  Inv P st G -> w_pending (s_wr st) = [] -> s_pol st = PAlways a ->
  op_wf_strict (s_qs st) o ->
  stream_bound P G (map snd (step_log P st o)) ->
  step P st o tick = (st', out) -> (forall e, out <> OutIo e) ->
  let w := s_wr st in
  let fs0 := c_fs (w_ctx w) in
  let lo := wlo w in
  let T := gh_T P G in
  let c0 := call_cursor st G in
  let NEW := call_bytes st G o in
  exists evs,
    c_ev (w_ctx (s_wr st')) = rev evs ++ c_ev (w_ctx w) /\
    c_fs (w_ctx (s_wr st')) = fold_left apply_event evs fs0 /\
    call_trace lo (w_file w) (w_off w) NEW (w_file (s_wr st')) (w_off (s_wr st')) evs /\
    forall cut k,
      let pe := crash_events evs cut k in
      let img := fold_left apply_event pe fs0 in
      let j := lenN (ev_data pe) in
      exists (nu : nat) (hi : N) (short : bool) (z : N),
        let lo' := lo + N.of_nat nu in
        (* the file set *)
        lo' <= hi /\ w_file w <= hi /\ hi <= w_file (s_wr st') /\ hi <= U64_MAX /\
        nodup_keys img /\ dir_of img (nfiles lo' hi) /\ list_wal_numbers img = nfiles lo' hi /\
        (forall n, lo' <= n <= hi ->
           exists b, fs_get img (filename n) = Some (FFile b) /\
                     lenN b = if short && (n =? hi) then 0 else FB) /\
        (short = true -> w_file w < hi /\ nu = 0%nat) /\
        (* the stream *)
        ev_data pe = takeN j NEW /\ j <= lenN NEW /\
        stream_of (zext img hi) (nfiles lo' hi) =
          dropN ((lo' - gh_base G) * FB)
                (T ++ zerosN (c0 - lenN T) ++ takeN j NEW ++ zerosN z) /\
        c0 + j + z = (hi + 1 - gh_base G) * FB /\
        (* unlinks come after the flush *)
        (nu <> 0%nat -> j = lenN NEW).
Proof.
  intros HI Hp0 Hpol Hop Hbound Hstep Hno w fs0 lo T c0 NEW.
  subst w fs0 lo T c0 NEW. set (w := s_wr st) in *.
  assert (HP : PInv P w G) by apply HI.
  destruct (pinv_step_call_trace st G a o tick st' out HP Hp0 Hpol Hbound Hstep Hno)
    as (evs & Hev & Hfs & Hct & _). cbn zeta in *. fold w in Hev, Hfs, Hct.
  exists evs. split; [exact Hev|]. split; [exact Hfs|]. split; [exact Hct|].
  (* the final file number fits in a u64 *)
  destruct (inv_step P HBS_lo HBS_hi HNB Hcrc HGC st G o tick st' out HI Hop Hbound Hstep Hno)
    as (G' & HI' & _).
  destruct (Inv_winv P st' G' HI') as ((_ & _ & _ & _ & Hu' & _) & _ & _).
  (* the directory before the call *)
  destruct (pinv_setup w G HP) as (Hlb & Ebuf & HS & Hposn & Hn & Hn1). cbn zeta in *.
  pose proof HP as (Hw & (_ & Hdir) & Hnd & Hbase & Hc1 & Hc2 & _). cbn zeta in Hc1, Hc2.
  pose proof Hw as (Hok & Hwf' & Hoff & Hplan & Hu & Hfull & Hfresh).
  rewrite (vfs_nil w Hp0) in Hfull, Hfresh.
  set (fs0 := c_fs (w_ctx w)) in *. set (lo := wlo w) in *. set (f0 := w_file w) in *.
  assert (Hlo : lo <= f0) by lia.
  assert (Efiles : w_files w = nfiles lo f0).
  { rewrite (wr_ok_iota w Hok). fold lo. unfold nfiles. f_equal.
    rewrite lenN_length in Hn. lia. }
  assert (Hfull0 : forall n, lo <= n <= f0 -> full_file fs0 n).
  { intros n Hn'. apply Hfull. rewrite Efiles. apply nfiles_In; lia. }
  assert (Hgood : good fs0 f0 U64_MAX).
  { split; [apply Hfull0; lia|]. intros n H1 H2. now apply Hfresh. }
  assert (Hdir0 : dir_of fs0 (nfiles lo f0)).
  { rewrite <- Efiles. apply Hdir. exact Hu. }
  assert (ES0 : stream_of fs0 (nfiles lo f0) = wstream w).
  { unfold wstream. now rewrite (vfs_nil w Hp0), Efiles. }
  assert (Epos : (f0 - lo) * FB + w_off w = wpos P w).
  { unfold wpos. f_equal. f_equal. lia. }
  intros cut k. cbn zeta.
  set (pe := crash_events evs cut k).
  pose proof (crash_events_cpre evs cut k) as Hc. fold pe in Hc.
  destruct (cpre_data_take _ _ Hc) as (Hdata & Hj).
  rewrite (call_trace_data _ _ _ _ _ _ _ Hct) in Hdata, Hj.
  destruct (call_trace_img _ _ _ _ _ _ _ Hct pe fs0 U64_MAX Hc Hgood Hlo Hu' (N.le_refl _))
    as (imgW & fc & short & mu & Hok' & Hfc & Hmu & Hfold & Hfullj).
  pose proof (img_ok_len _ _ _ _ _ _ _ Hok' (Hfull0 f0 ltac:(lia)) Hoff ltac:(lia)) as Hlen.
  destruct (assemble fs0 lo f0 (w_off w) imgW (ev_data pe) fc short mu Hlo ltac:(lia) Hfull0 Hdir0
              Hok' Hmu) as (Hdir' & Hlen' & Hstr').
  pose proof Hok' as (Hle' & _ & _ & Hshort' & _).
  set (j := lenN (ev_data pe)) in *.
  exists mu, fc, short,
    (lenN (w_files w) * FB + (fc - f0) * FB - wpos P w - j).
  rewrite Hfold.
  assert (Hndi : nodup_keys (remove_files imgW (iota lo mu))).
  { rewrite <- Hfold. apply fold_nodup. exact Hnd. }
  split; [exact Hmu|]. split; [exact Hle'|]. split; [exact Hfc|]. split; [lia|].
  split; [exact Hndi|].
  split; [exact Hdir'|]. split; [apply dir_listing; [exact Hndi|exact Hdir'|exact Hmu|lia]|].
  split; [exact Hlen'|].
  split.
  { intros Hs. split; [now apply Hshort'|].
    destruct mu as [|mu']; [reflexivity|].
    destruct (Hfullj ltac:(discriminate)) as (_ & E). congruence. }
  split; [exact Hdata|]. split; [exact Hj|].
  assert (Hbound' : wpos P w + j <= lenN (w_files w) * FB + (fc - f0) * FB).
  { rewrite <- Epos. replace (lenN (w_files w)) with (f0 - lo + 1) by lia. lia. }
  split.
  { rewrite Hstr', ES0, Epos, HS. rewrite <- Hdata.
    replace (lo + N.of_nat mu - gh_base G) with ((lo - gh_base G) + N.of_nat mu) by lia.
    rewrite N.mul_add_distr_r.
    apply stream_to_ghost; try assumption; try reflexivity. }
  split.
  { unfold call_cursor. fold w. fold lo.
    replace (fc + 1 - gh_base G) with ((lo - gh_base G) + lenN (w_files w) + (fc - f0)) by lia.
    lia. }
  intros Hnu. destruct (Hfullj Hnu) as (E & _). unfold j. now rewrite E.
Qed.

(* (3) the extreme crash points *)
Lemma crash_events_none evs : crash_events evs 0 0 = [].
Proof. destruct evs as [|e r]; [reflexivity|]. now rewrite crash_events_cons0. Qed.

Lemma crash_events_all evs : crash_events evs (lenN evs) 0 = evs.
Proof. unfold crash_events. rewrite takeN_all by lia. cbn. apply app_nil_r. Qed.

Theorem img_zero evs fs0 : fold_left apply_event (crash_events evs 0 0) fs0 = fs0.
Proof. now rewrite crash_events_none. Qed.

Theorem img_full st G a o tick st' out :
  Inv P st G -> w_pending (s_wr st) = [] -> s_pol st = PAlways a ->
  stream_bound P G (map snd (step_log P st o)) ->
  step P st o tick = (st', out) -> (forall e, out <> OutIo e) ->
  exists evs,
    c_ev (w_ctx (s_wr st')) = rev evs ++ c_ev (w_ctx (s_wr st)) /\
    fold_left apply_event (crash_events evs (lenN evs) 0) (c_fs (w_ctx (s_wr st))) =
      c_fs (w_ctx (s_wr st')) /\
    c_fs (w_ctx (s_wr st')) = vfs (s_wr st').
Proof.
  intros HI Hp0 Hpol Hbound Hstep Hno.
  destruct (step_call_trace st G a o tick st' out HI Hp0 Hpol Hbound Hstep Hno)
    as (evs & Hev & Hfs & _ & Hp'). cbn zeta in *.
  exists evs. split; [exact Hev|]. split; [now rewrite crash_events_all|].
  symmetry. now apply vfs_nil.
Qed.

End Trace.

(* ---------- the GC of a call can unlink files created by the same call ---------- *)
Definition PX : params := mkParams 16 2 (fun _ _ => 5) 0 false false false.
Definition long_name : bytes := List.repeat x61 40.

(* (current file before the delete, current file after it, the files it unlinked) *)
Definition unlink_created : option (N * N * list N) :=
  match open PX [] None (PAlways true) [] with
  | OpenOk st0 =>
      let '(st1, _) := step PX st0 (OCreate long_name) false in
      let '(st1d, _) := drain_state st1 in
      let '(st2, _) := step PX st1d (ODelete long_name []) false in
      Some (w_file (s_wr st1), w_file (s_wr st2),
            flat_map (fun e => match e with
                               | EvUnlink n => match filename_to_position n with
                                               | Some k => [k] | None => [] end
                               | _ => [] end) (rev (c_ev (w_ctx (s_wr st2)))))
  | _ => None
  end.

Example unlink_created_example : unlink_created = Some (2, 5, [0; 1; 2; 3; 4]).
Proof. vm_compute. reflexivity. Qed.

Print Assumptions step_call_trace.
Print Assumptions crash_image_shape.
Print Assumptions crash_data_mono.
Print Assumptions img_zero.
Print Assumptions img_full.
