(* WriterProofs.v — property C15: the byte count returned by every writing call is the number
   of bytes the call handed to the WAL (frame headers, payload, end-of-block padding, GC position
   entries).  Proved generically for the frame/record writer over any block writer that has a
   byte counter, then for the rolling writer (bytes in the OS-level write events + bytes still in
   the BufWriter), then for every API call. *)
From Coq Require Import Lia ZArith ZifyN ZifyNat ZifyBool.
From MRL Require Import Bytes BytesProofs Params Names Frame Record Mem Rolling Log Hist NoopProofs.

Arguments N.add : simpl never.
Arguments N.sub : simpl never.
Arguments N.mul : simpl never.
Arguments N.eqb : simpl never.
Arguments N.ltb : simpl never.
Arguments N.leb : simpl never.
Arguments N.div : simpl never.
Arguments N.modulo : simpl never.

(* ---------------------------------------------------------------- generic writer *)
Section Generic.
Variable P : params.
Variable W : Type.
Variable wwrite : W -> bytes -> W * res unit.
Variable wrem : W -> N.
Variable wcount : W -> N.            (* bytes accepted so far *)
Hypothesis wwrite_count : forall w d w', wwrite w d = (w', Ok tt) -> wcount w' = wcount w + lenN d.

Lemma lenN_header_bytes crc len t : lenN (header_bytes crc len t) = 7.
Proof.
  unfold header_bytes. rewrite !lenN_app, !length_le_enc, lenN_cons, lenN_nil. reflexivity.
Qed.

Lemma lenN_frame_bytes t p : lenN (frame_bytes P t p) = HEADER_LEN + lenN p.
Proof. unfold frame_bytes. rewrite lenN_app, lenN_header_bytes. reflexivity. Qed.

Lemma write_frame_count w t p w' n :
  write_frame P W wwrite wrem w t p = (w', Ok n) -> wcount w' = wcount w + n.
Proof.
  unfold write_frame.
  destruct (N.ltb_spec (wrem w) HEADER_LEN) as [Hlt|Hge].
  - destruct (wwrite w (zerosN (wrem w))) as [w1 [[]|e]] eqn:E1; [|discriminate].
    destruct (wwrite w1 (frame_bytes P t p)) as [w2 [[]|e]] eqn:E2; [|discriminate].
    intros H; inversion H; subst; clear H.
    apply wwrite_count in E1. apply wwrite_count in E2.
    rewrite lenN_zerosN in E1. rewrite lenN_frame_bytes in E2. lia.
  - destruct (wwrite w (frame_bytes P t p)) as [w2 [[]|e]] eqn:E2; [|discriminate].
    intros H; inversion H; subst; clear H.
    apply wwrite_count in E2. rewrite lenN_frame_bytes in E2. lia.
Qed.

Lemma write_record_loop_count fuel : forall w isf payload acc w' n,
  write_record_loop P W wwrite wrem fuel w isf payload acc = (w', Ok n) ->
  wcount w' + acc = wcount w + n.
Proof.
  induction fuel as [|fuel IH]; intros w isf payload acc w' n; cbn [write_record_loop].
  - intros H; inversion H; subst. reflexivity.
  - destruct (write_frame P W wwrite wrem w _ _) as [w1 [k|e]] eqn:E; [|discriminate].
    apply write_frame_count in E.
    destruct (isnil (dropN _ payload)).
    + intros H; inversion H; subst. lia.
    + intros H. apply IH in H. lia.
Qed.

(* C15, generic: the count returned by write_record is the number of bytes accepted by the
   block writer during the call *)
Theorem write_record_count w payload w' n :
  write_record P W wwrite wrem w payload = (w', Ok n) -> wcount w' = wcount w + n.
Proof. unfold write_record. intros H. apply write_record_loop_count in H. lia. Qed.
End Generic.

(* ---------------------------------------------------------------- rolling writer *)
Fixpoint ev_bytes (evs : list event) : N :=
  match evs with
  | [] => 0
  | EvWrite _ _ d :: r => lenN d + ev_bytes r
  | _ :: r => ev_bytes r
  end.

(* bytes the writer has accepted: those in OS-level write events + those still buffered *)
Definition accepted (w : rwriter) : N := ev_bytes (c_ev (w_ctx w)) + lenN (w_pending w).

Section Rolling.
Variable P : params.

Lemma flush_buf_accepted w : accepted (flush_buf w) = accepted w.
Proof.
  unfold flush_buf, accepted. destruct (w_pending w) as [|b r] eqn:E; [now rewrite E|].
  cbn [w_ctx w_pending os_write ctx_ev ctx_fs c_ev ev_bytes]. rewrite lenN_nil. lia.
Qed.

Lemma bw_flush_accepted w : accepted (bw_flush w) = accepted w.
Proof.
  unfold bw_flush. rewrite <- (flush_buf_accepted w).
  unfold accepted, wr_ctx. cbn [w_ctx w_pending ctx_ev c_ev ev_bytes]. reflexivity.
Qed.

Lemma sync_data_accepted w : accepted (sync_data w) = accepted w.
Proof. unfold accepted, sync_data, wr_ctx. cbn [w_ctx w_pending ctx_ev c_ev ev_bytes]. reflexivity. Qed.

Lemma sync_dir_accepted w : accepted (sync_dir w) = accepted w.
Proof. unfold accepted, sync_dir, wr_ctx. cbn [w_ctx w_pending ctx_ev c_ev ev_bytes]. reflexivity. Qed.

Lemma wr_persist_accepted w a : accepted (wr_persist w a) = accepted w.
Proof.
  unfold wr_persist. destruct a.
  - now rewrite sync_dir_accepted, sync_data_accepted, bw_flush_accepted.
  - apply bw_flush_accepted.
Qed.

Lemma bw_write_all_accepted w d : accepted (bw_write_all P w d) = accepted w + lenN d.
Proof.
  unfold bw_write_all, bw_write_all0.
  destruct (N.ltb_spec (lenN d) (BS P - lenN (w_pending w))) as [H1|H1].
  - unfold accepted. cbn [w_ctx w_pending]. rewrite lenN_app. lia.
  - set (w1 := if BS P - lenN (w_pending w) <? lenN d then flush_buf w else w).
    assert (Hw1 : accepted w1 = accepted w).
    { unfold w1. destruct (_ <? _); [apply flush_buf_accepted|reflexivity]. }
    destruct (N.leb_spec (BS P) (lenN d)) as [H2|H2].
    + unfold accepted in *. cbn [w_ctx w_pending os_write ctx_ev ctx_fs c_ev ev_bytes]. lia.
    + unfold accepted in *. cbn [w_ctx w_pending]. rewrite lenN_app. lia.
Qed.

Lemma fault_point_ev c s : c_ev (fst (fault_point c s)) = c_ev c.
Proof.
  unfold fault_point. destruct (c_plan c) as [p|]; destruct s; cbn;
    try destruct (_ && _); reflexivity.
Qed.

Lemma open_file_ev_bytes c n c' r : open_file c n = (c', r) -> ev_bytes (c_ev c') = ev_bytes (c_ev c).
Proof.
  unfold open_file. pose proof (fault_point_ev c SOpen) as Hf.
  destruct (fault_point c SOpen) as [c1 [e|]]; cbn [fst] in Hf.
  - intros H; inversion H; subst. now rewrite Hf.
  - destruct (fs_get (c_fs c1) (filename n)) as [[b| |]|]; intros H; inversion H; subst;
      cbn [ctx_ev c_ev ev_bytes]; now rewrite Hf.
Qed.

Lemma create_file_ev_bytes c n c' r :
  create_file P c n = (c', r) -> ev_bytes (c_ev c') = ev_bytes (c_ev c).
Proof.
  unfold create_file. destruct (fs_get (c_fs c) (filename n)); intros H; inversion H; subst;
    cbn [ctx_ev ctx_fs c_ev ev_bytes]; reflexivity.
Qed.

Lemma wr_write_accepted w d w' :
  wr_write P w d = (w', Ok tt) -> accepted w' = accepted w + lenN d.
Proof.
  unfold wr_write. destruct d as [|b d'] eqn:Ed.
  - intros H; inversion H; subst. rewrite lenN_nil. lia.
  - rewrite <- Ed. clear Ed.
    set (w1 := sync_dir (sync_data (bw_flush w))).
    assert (Hw1 : accepted w1 = accepted w).
    { unfold w1. now rewrite sync_dir_accepted, sync_data_accepted, bw_flush_accepted. }
    destruct (N.ltb_spec (FILE_BYTES P) (w_off w + lenN d)) as [Hroll|Hfit].
    + assert (Hp1 : w_pending w1 = []).
      { unfold w1, sync_dir, sync_data, bw_flush, wr_ctx, flush_buf.
        destruct (w_pending w) eqn:E; cbn [w_pending]; [exact E|reflexivity]. }
      destruct (tracker_next (w_files w1) (w_file w1)) as [nxt|].
      * destruct (open_file (w_ctx w1) nxt) as [c [[]|e]] eqn:Eo; [|discriminate].
        intros H; inversion H; subst; clear H.
        rewrite bw_write_all_accepted. apply open_file_ev_bytes in Eo.
        unfold accepted in *. cbn [w_ctx w_pending]. rewrite Hp1 in Hw1.
        rewrite lenN_nil in *. lia.
      * destruct (create_file P (w_ctx w1) (w_file w1 + 1)) as [c [[]|e]] eqn:Ec; [|discriminate].
        intros H; inversion H; subst; clear H.
        rewrite bw_write_all_accepted. apply create_file_ev_bytes in Ec.
        unfold accepted in *. cbn [w_ctx w_pending]. rewrite Hp1 in Hw1.
        rewrite lenN_nil in *. lia.
    + intros H; inversion H; subst. apply bw_write_all_accepted.
Qed.

(* ---------------------------------------------------------------- the API *)
Definition st_accepted (st : state) : N := accepted (s_wr st).

Lemma write_entry_count st e st' n :
  write_entry P st e = (st', Ok n) -> st_accepted st' = st_accepted st + n /\ s_qs st' = s_qs st
                                      /\ s_pol st' = s_pol st.
Proof.
  unfold write_entry.
  destruct (write_record P rwriter (wr_write P) (wr_rem P) (s_wr st) (entry_ser e)) as [w r] eqn:E.
  intros H; inversion H; subst; clear H.
  split; [|split; reflexivity].
  unfold st_accepted. cbn [set_wr s_wr].
  eapply (write_record_count P rwriter (wr_write P) (wr_rem P) accepted); [|exact E].
  intros w0 d w0' Hw. now apply wr_write_accepted.
Qed.

Lemma write_entry_err_qs st e st' err :
  write_entry P st e = (st', Err err) -> s_qs st' = s_qs st /\ s_pol st' = s_pol st.
Proof.
  unfold write_entry.
  destruct (write_record P rwriter (wr_write P) (wr_rem P) (s_wr st) (entry_ser e)) as [w r].
  intros H; inversion H; subst. split; reflexivity.
Qed.

Lemma persist_accepted st a : st_accepted (persist st a) = st_accepted st.
Proof. unfold persist, st_accepted. cbn [set_wr s_wr]. apply wr_persist_accepted. Qed.

Lemma persist_on_policy_accepted st tick : st_accepted (persist_on_policy st tick) = st_accepted st.
Proof.
  unfold persist_on_policy. destruct (s_pol st) as [|a|a]; [reflexivity| |apply persist_accepted].
  destruct tick; [apply persist_accepted|reflexivity].
Qed.

Lemma record_positions_count names : forall st acc st' n,
  record_positions P st names acc = (st', Ok n) ->
  st_accepted st' + acc = st_accepted st + n /\ s_qs st' = s_qs st.
Proof.
  induction names as [|nm r IH]; intros st acc st' n; cbn [record_positions].
  - intros H; inversion H; subst. split; reflexivity.
  - destruct (qs_get (s_qs st) nm) as [q|]; [|apply IH].
    destruct (write_entry P st (EPosition nm (next_position q))) as [st1 [k|e]] eqn:E; [|discriminate].
    apply write_entry_count in E. destruct E as [E1 [E2 _]].
    intros H. apply IH in H. destruct H as [H1 H2]. split; [lia|congruence].
Qed.

Lemma gc_loop_ev_bytes files : forall c refd c' files' r,
  gc_loop c files refd = (c', files', r) -> ev_bytes (c_ev c') = ev_bytes (c_ev c).
Proof.
  induction files as [|f rest IH]; intros c refd c' files' r; cbn [gc_loop].
  - intros H; inversion H; subst. reflexivity.
  - destruct rest as [|g rest'].
    + intros H; inversion H; subst. reflexivity.
    + destruct (refd f).
      * intros H; inversion H; subst. reflexivity.
      * destruct (fs_get (c_fs c) (filename f)) as [[b| |]|].
        -- intros H. apply IH in H. rewrite H. reflexivity.
        -- intros H; inversion H; subst. reflexivity.
        -- intros H. apply IH in H. rewrite H. reflexivity.
        -- intros H; inversion H; subst. reflexivity.
Qed.

Lemma run_gc_count st hint st' n :
  run_gc_if_necessary P st hint = (st', Ok n) -> st_accepted st' = st_accepted st + n.
Proof.
  unfold run_gc_if_necessary. destruct (has_deletable st); [|intros H; inversion H; subst; lia].
  unfold record_empty_queues_position.
  destruct (record_positions P st _ 0) as [st1 [k|e]] eqn:E; [|discriminate].
  apply record_positions_count in E. destruct E as [E _].
  set (st2 := if L_GC P && (k =? 0) then st1 else persist st1 true).
  assert (H2 : st_accepted st2 = st_accepted st1).
  { unfold st2. destruct (_ && _); [reflexivity|apply persist_accepted]. }
  replace (if L_GC P && (k =? 0) then (st1, Ok k) else (persist st1 true, Ok k))
    with (st2, @Ok N k) by (unfold st2; destruct (_ && _); reflexivity).
  destruct (gc_loop (w_ctx (s_wr st2)) (w_files (s_wr st2)) _) as [[c files] [[]|e]] eqn:G; [|discriminate].
  intros H; inversion H; subst; clear H.
  apply gc_loop_ev_bytes in G.
  unfold st_accepted, accepted in *. cbn [set_wr s_wr w_ctx w_pending]. lia.
Qed.

(* C15: whatever the call, the wal_bytes_written it reports is exactly the growth of the bytes
   accepted by the WAL writer during the call *)
Theorem step_bytes_exact st o tick st' out n :
  step P st o tick = (st', out) -> outcome_bytes out = Some n ->
  st_accepted st' = st_accepted st + n.
Proof.
  destruct o as [q|q hint|q pos payloads|q p hint|a]; cbn [step].
  - unfold create_queue. destruct (qs_contains (s_qs st) q); [intros H; inversion H; subst; discriminate|].
    destruct (write_entry P st (EPosition q 0)) as [st1 [k|e]] eqn:E;
      intros H; inversion H; subst; clear H; cbn [outcome_bytes]; [|discriminate].
    intros Hn; inversion Hn; subst. apply write_entry_count in E. destruct E as [E _].
    unfold st_accepted in *. cbn [set_qs s_wr]. fold (st_accepted (persist st1 true)).
    rewrite persist_accepted. exact E.
  - unfold delete_queue. destruct (qs_get (s_qs st) q) as [m|]; [|intros H; inversion H; subst; discriminate].
    destruct (write_entry P st _) as [st1 [k|e]] eqn:E; [|intros H; inversion H; subst; discriminate].
    destruct (run_gc_if_necessary P _ hint) as [st3 [k2|e]] eqn:G;
      intros H; inversion H; subst; clear H; cbn [outcome_bytes]; [|discriminate].
    intros Hn; inversion Hn; subst. apply write_entry_count in E. destruct E as [E _].
    apply run_gc_count in G. rewrite persist_accepted.
    unfold st_accepted in *. cbn [set_qs s_wr] in G. lia.
  - unfold append_records. destruct (qs_get (s_qs st) q) as [m|]; [|intros H; inversion H; subst; discriminate].
    destruct (match pos with Some p => _ | None => None end) as [early|] eqn:Ee.
    + intros H; inversion H; subst; clear H. destruct pos as [p|]; [|discriminate].
      destruct (p + 1 =? next_position m).
      * inversion Ee; subst. cbn. intros Hn; inversion Hn; subst. lia.
      * destruct (p <? next_position m); inversion Ee; subst. discriminate.
    + destruct (number_from _ payloads) as [|r0 rs] eqn:En.
      * intros H; inversion H; subst. cbn. intros Hn; inversion Hn; subst. lia.
      * destruct (write_entry P st _) as [st1 [k|e]] eqn:E; [|intros H; inversion H; subst; discriminate].
        apply write_entry_count in E. destruct E as [E _].
        destruct (append_all m _ _) as [m'|];
          intros H; inversion H; subst; clear H; cbn [outcome_bytes]; [|discriminate].
        intros Hn; inversion Hn; subst.
        unfold st_accepted. cbn [set_qs s_wr]. fold (st_accepted (persist_on_policy st1 tick)).
        rewrite persist_on_policy_accepted. exact E.
  - unfold truncate. destruct (qs_get (s_qs st) q) as [m|]; [|intros H; inversion H; subst; discriminate].
    destruct (write_entry P st _) as [st1 [k|e]] eqn:E; [|intros H; inversion H; subst; discriminate].
    destruct (truncate_head m p) as [m' ev].
    destruct (run_gc_if_necessary P _ hint) as [st3 [k2|e]] eqn:G;
      intros H; inversion H; subst; clear H; cbn [outcome_bytes]; [|discriminate].
    intros Hn; inversion Hn; subst. apply write_entry_count in E. destruct E as [E _].
    apply run_gc_count in G. rewrite persist_on_policy_accepted.
    unfold st_accepted in *. cbn [set_qs s_wr] in G. lia.
  - intros H; inversion H; subst. discriminate.
Qed.

(* after a persist nothing is left in the BufWriter: accepted bytes = bytes in write events *)
Lemma wr_persist_drained w a : w_pending (wr_persist w a) = [].
Proof.
  unfold wr_persist, sync_dir, sync_data, bw_flush, wr_ctx, flush_buf.
  destruct a; destruct (w_pending w) eqn:E; cbn [w_pending]; try exact E; reflexivity.
Qed.

Lemma persist_pol st a : s_pol (persist st a) = s_pol st.
Proof. reflexivity. Qed.

Lemma persist_drained st a : w_pending (s_wr (persist st a)) = [].
Proof. unfold persist. cbn [set_wr s_wr]. apply wr_persist_drained. Qed.

Lemma record_positions_pol names : forall st acc st' r,
  record_positions P st names acc = (st', r) -> s_pol st' = s_pol st.
Proof.
  induction names as [|nm rr IH]; intros st acc st' r; cbn [record_positions].
  - intros H; inversion H; subst. reflexivity.
  - destruct (qs_get (s_qs st) nm) as [q|]; [|apply IH].
    destruct (write_entry P st (EPosition nm (next_position q))) as [st1 [k|e]] eqn:E.
    + apply write_entry_count in E. destruct E as [_ [_ E]]. intros H. apply IH in H. congruence.
    + apply write_entry_err_qs in E. destruct E as [_ E]. intros H; inversion H; subst. exact E.
Qed.

Lemma run_gc_pol st hint st' r : run_gc_if_necessary P st hint = (st', r) -> s_pol st' = s_pol st.
Proof.
  unfold run_gc_if_necessary. destruct (has_deletable st); [|intros H; inversion H; subst; reflexivity].
  unfold record_empty_queues_position.
  destruct (record_positions P st _ 0) as [st1 [k|e]] eqn:E; apply record_positions_pol in E.
  - destruct (L_GC P && (k =? 0)).
    + destruct (gc_loop _ _ _) as [[c files] [[]|e]]; intros H; inversion H; subst; exact E.
    + destruct (gc_loop _ _ _) as [[c files] [[]|e]]; intros H; inversion H; subst; exact E.
  - intros H; inversion H; subst. exact E.
Qed.

(* under a flush-per-operation policy (and for create/delete under any policy) a call that
   reports a byte count leaves nothing buffered, provided nothing was buffered before *)
Lemma step_drained st o tick st' out n a :
  step P st o tick = (st', out) -> outcome_bytes out = Some n ->
  w_pending (s_wr st) = [] ->
  (s_pol st = PAlways a \/ (exists q, o = OCreate q) \/ (exists q h, o = ODelete q h)) ->
  w_pending (s_wr st') = [].
Proof.
  intros Hs Hn Hp Hpol.
  destruct o as [q|q hint|q pos payloads|q p hint|f]; cbn [step] in Hs.
  - unfold create_queue in Hs. destruct (qs_contains (s_qs st) q); [inversion Hs; subst; discriminate|].
    destruct (write_entry P st (EPosition q 0)) as [st1 [k|e]];
      inversion Hs; subst; [|discriminate]. cbn [set_qs s_wr]. apply persist_drained.
  - unfold delete_queue in Hs. destruct (qs_get (s_qs st) q) as [m|]; [|inversion Hs; subst; discriminate].
    destruct (write_entry P st _) as [st1 [k|e]]; [|inversion Hs; subst; discriminate].
    destruct (run_gc_if_necessary P _ hint) as [st3 [k2|e]];
      inversion Hs; subst; [|discriminate]. apply persist_drained.
  - destruct Hpol as [Hpol|[[q0 Hq]|[q0 [h0 Hq]]]]; try discriminate.
    unfold append_records in Hs. destruct (qs_get (s_qs st) q) as [m|]; [|inversion Hs; subst; discriminate].
    destruct (match pos with Some p => _ | None => None end) as [early|].
    + inversion Hs; subst. exact Hp.
    + destruct (number_from _ payloads) as [|r0 rs]; [inversion Hs; subst; exact Hp|].
      destruct (write_entry P st _) as [st1 [k|e]] eqn:E; [|inversion Hs; subst; discriminate].
      apply write_entry_count in E. destruct E as [_ [_ E]].
      destruct (append_all m _ _) as [m'|]; inversion Hs; subst; [|discriminate].
      cbn [set_qs s_wr]. unfold persist_on_policy. rewrite E, Hpol. apply persist_drained.
  - destruct Hpol as [Hpol|[[q0 Hq]|[q0 [h0 Hq]]]]; try discriminate.
    unfold truncate in Hs. destruct (qs_get (s_qs st) q) as [m|]; [|inversion Hs; subst; discriminate].
    destruct (write_entry P st _) as [st1 [k|e]] eqn:E; [|inversion Hs; subst; discriminate].
    apply write_entry_count in E. destruct E as [_ [_ E]].
    destruct (truncate_head m p) as [m' ev].
    destruct (run_gc_if_necessary P _ hint) as [st3 [k2|e]] eqn:G;
      inversion Hs; subst; [|discriminate].
    apply run_gc_pol in G. cbn [set_qs s_pol] in G.
    unfold persist_on_policy. rewrite G, E, Hpol. apply persist_drained.
  - inversion Hs; subst. discriminate.
Qed.

(* C15 in terms of what reached the files: with a flush-per-operation policy the reported count
   is the number of bytes in the OS-level write events of the call *)
Theorem step_bytes_in_write_events st o tick st' out n a :
  step P st o tick = (st', out) -> outcome_bytes out = Some n ->
  w_pending (s_wr st) = [] ->
  (s_pol st = PAlways a \/ (exists q, o = OCreate q) \/ (exists q h, o = ODelete q h)) ->
  ev_bytes (c_ev (w_ctx (s_wr st'))) = ev_bytes (c_ev (w_ctx (s_wr st))) + n.
Proof.
  intros Hs Hn Hp Hpol.
  pose proof (step_drained _ _ _ _ _ _ _ Hs Hn Hp Hpol) as Hd.
  pose proof (step_bytes_exact _ _ _ _ _ _ Hs Hn) as Hb.
  unfold st_accepted, accepted in Hb. rewrite Hp, Hd, lenN_nil in Hb. lia.
Qed.

(* the running sum of the reported counts tracks the bytes accepted by the WAL writer *)
Definition reported (o : outcome) : N := match outcome_bytes o with Some n => n | None => 0 end.
Fixpoint sum_reported (outs : list outcome) : N :=
  match outs with [] => 0 | o :: r => reported o + sum_reported r end.

Definition is_io (o : outcome) : bool := match o with OutIo _ => true | _ => false end.

Lemma step_accounted st o tick st' out :
  step P st o tick = (st', out) -> is_io out = false ->
  st_accepted st' = st_accepted st + reported out.
Proof.
  intros Hs Hio. unfold reported. destruct (outcome_bytes out) as [n|] eqn:Hb.
  - eapply step_bytes_exact; eassumption.
  - enough (st_accepted st' = st_accepted st) by lia.
    destruct o as [q|q hint|q pos payloads|q p hint|f]; cbn [step] in Hs.
    + unfold create_queue in Hs. destruct (qs_contains (s_qs st) q); [inversion Hs; subst; reflexivity|].
      destruct (write_entry P st _) as [st1 [k|e]]; inversion Hs; subst; discriminate.
    + unfold delete_queue in Hs. destruct (qs_get (s_qs st) q) as [m|]; [|inversion Hs; subst; reflexivity].
      destruct (write_entry P st _) as [st1 [k|e]]; [|inversion Hs; subst; discriminate].
      destruct (run_gc_if_necessary P _ hint) as [st3 [k2|e]]; inversion Hs; subst; discriminate.
    + unfold append_records in Hs. destruct (qs_get (s_qs st) q) as [m|]; [|inversion Hs; subst; reflexivity].
      destruct (match pos with Some p => _ | None => None end) as [early|] eqn:Ee; [inversion Hs; subst; reflexivity|].
      destruct (number_from _ payloads) as [|r0 rs] eqn:En; [inversion Hs; subst; reflexivity|].
      destruct (write_entry P st _) as [st1 [k|e]]; [|inversion Hs; subst; discriminate].
      assert (Hle : next_position m <= match pos with Some p => p | None => next_position m end).
      { destruct pos as [p|]; [|lia].
        destruct (N.eqb_spec (p + 1) (next_position m)); [discriminate|].
        destruct (N.ltb_spec p (next_position m)); [discriminate|lia]. }
      destruct (append_all_some payloads m (w_file (s_wr st)) _ Hle) as [m' Hm'].
      rewrite En in Hm'. rewrite Hm' in Hs. inversion Hs; subst. discriminate.
    + unfold truncate in Hs. destruct (qs_get (s_qs st) q) as [m|]; [|inversion Hs; subst; reflexivity].
      destruct (write_entry P st _) as [st1 [k|e]]; [|inversion Hs; subst; discriminate].
      destruct (truncate_head m p) as [m' ev].
      destruct (run_gc_if_necessary P _ hint) as [st3 [k2|e]]; inversion Hs; subst; discriminate.
    + inversion Hs; subst. apply persist_accepted.
Qed.

Theorem run_bytes_tracked : forall h st st' outs,
  run P st h = (st', outs) -> forallb (fun o => negb (is_io o)) outs = true ->
  st_accepted st' = st_accepted st + sum_reported outs.
Proof.
  induction h as [|[o tick] h IH]; intros st st' outs; cbn [run].
  - intros H; inversion H; subst. cbn. lia.
  - destruct (step P st o tick) as [st1 out] eqn:Es. destruct (run P st1 h) as [st2 outs2] eqn:Er.
    intros H; inversion H; subst; clear H. cbn [forallb sum_reported].
    intros Hio. apply andb_prop in Hio. destruct Hio as [Hio1 Hio2].
    apply negb_true_iff in Hio1.
    rewrite (IH _ _ _ Er Hio2), (step_accounted _ _ _ _ _ Es Hio1). lia.
Qed.
End Rolling.
