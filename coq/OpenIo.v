(* OpenIo.v — property C11: an injected I/O failure during `open` is reported (OpenIo). *)
From Coq Require Import Lia ZArith ZifyN ZifyNat ZifyBool.
From MRL Require Import Bytes BytesProofs Params Names Frame Record Mem Rolling Log OpenTerm.

Arguments N.add : simpl never.
Arguments N.sub : simpl never.
Arguments N.mul : simpl never.
Arguments N.eqb : simpl never.
Arguments N.ltb : simpl never.
Arguments N.leb : simpl never.
Arguments N.div : simpl never.
Arguments N.modulo : simpl never.

Definition site_count (s : fsite) (c : ioctx) : N :=
  match s with SReadDir => c_nreaddir c | SOpen => c_nopen c | SRead => c_nread c end.

(* the fp_nth-th call (from 0) of the plan's site has been made *)
Definition fired (p : fplan) (c : ioctx) : Prop := site_count (fp_site p) c > fp_nth p.

(* R2: directory.rs read_block maps an UnexpectedEof from read_exact to Ok(false) ("no more
   blocks in this file"), so a fault of kind UnexpectedEof injected at site Read is absorbed as
   end-of-file at every read except the first one of recovery. Such plans are not reportable. *)
Definition absorbed (p : fplan) : Prop := fp_site p = SRead /\ fp_kind p = IoUnexpectedEof.
Definition reportable (p : fplan) : Prop := ~ (fp_site p = SRead /\ fp_kind p = IoUnexpectedEof).

(* the plan is installed and has not fired yet *)
Definition quiet (p : fplan) (c : ioctx) : Prop :=
  c_plan c = Some p /\ site_count (fp_site p) c <= fp_nth p.

Lemma quiet_not_fired p c : quiet p c -> ~ fired p c.
Proof. unfold quiet, fired. intros [_ H]. lia. Qed.

(* contexts that differ only in the file system and the trace *)
Definition ceq (c c' : ioctx) : Prop :=
  c_plan c' = c_plan c /\ c_nreaddir c' = c_nreaddir c /\
  c_nopen c' = c_nopen c /\ c_nread c' = c_nread c.

Lemma ceq_refl c : ceq c c.
Proof. repeat split. Qed.
Lemma ceq_trans a b c : ceq a b -> ceq b c -> ceq a c.
Proof. unfold ceq. intuition congruence. Qed.
Lemma ceq_ev c e : ceq c (ctx_ev c e).
Proof. repeat split. Qed.
Lemma ceq_fs c fs : ceq c (ctx_fs c fs).
Proof. repeat split. Qed.

Lemma quiet_ceq p c c' : ceq c c' -> quiet p c -> quiet p c'.
Proof.
  unfold ceq, quiet, site_count. intros (H1 & H2 & H3 & H4) [Hp Hc]. split; [congruence|].
  destruct (fp_site p); congruence.
Qed.

Lemma site_eqb_eq a b : site_eqb a b = true <-> a = b.
Proof. destruct a, b; cbn; split; intros H; try reflexivity; discriminate. Qed.

Lemma fault_point_quiet p c s c' :
  quiet p c -> fault_point c s = (c', None) -> quiet p c'.
Proof.
  unfold quiet, fault_point. intros [Hp Hc]. rewrite Hp.
  destruct (site_eqb (fp_site p) s) eqn:Es.
  - apply site_eqb_eq in Es. subst s. cbn [andb].
    set (n := match fp_site p with SReadDir => c_nreaddir c | SOpen => c_nopen c | SRead => c_nread c end) in *.
    assert (Hn : n = site_count (fp_site p) c) by reflexivity.
    destruct (N.eqb_spec n (fp_nth p)) as [He|Hne]; cbn [orb]; [intros H; inversion H|].
    destruct (fp_persistent p && (fp_nth p <? n)); intros H; inversion H; subst c'.
    split; [destruct (fp_site p); first [exact Hp|reflexivity]|].
    unfold site_count in *. destruct (fp_site p); cbn; lia.
  - cbn [andb]. intros H; inversion H; subst c'.
    split; [destruct s; first [exact Hp|reflexivity]|].
    unfold site_count in *. destruct (fp_site p), s; cbn; try exact Hc; discriminate.
Qed.

(* a fault that fires is the plan's, at the plan's site *)
Lemma fault_point_some p c s c' e :
  c_plan c = Some p -> fault_point c s = (c', Some e) -> fp_site p = s /\ e = fp_kind p.
Proof.
  unfold fault_point. intros Hp. rewrite Hp.
  destruct (site_eqb (fp_site p) s) eqn:Es; cbn [andb]; [|intros H; inversion H].
  apply site_eqb_eq in Es.
  destruct (_ || _); intros H; inversion H. split; [exact Es|reflexivity].
Qed.

Lemma open_file_quiet p c n c' u :
  quiet p c -> open_file c n = (c', Ok u) -> quiet p c'.
Proof.
  intros Hq. unfold open_file.
  destruct (fault_point c SOpen) as [c1 [e|]] eqn:Hf; [intros H; inversion H|].
  pose proof (fault_point_quiet _ _ _ _ Hq Hf) as Hq1.
  destruct (fs_get (c_fs c1) (filename n)) as [[b| |]|]; intros H; inversion H; subst.
  eapply quiet_ceq; [apply ceq_ev|exact Hq1].
Qed.

Lemma create_file_ceq P c n c' r : create_file P c n = (c', r) -> ceq c c'.
Proof.
  unfold create_file. destruct (fs_get (c_fs c) (filename n)); intros H; inversion H; subst.
  - apply ceq_refl.
  - repeat split.
Qed.

Section Reader.
Variable P : params.
Variable p : fplan.
Hypothesis Hrep : reportable p.

Lemma read_block_quiet c n pos c' pos' x :
  quiet p c -> read_block P c n pos = (c', pos', Ok x) -> quiet p c'.
Proof.
  intros Hq. unfold read_block.
  destruct (fault_point c SRead) as [c1 [e|]] eqn:Hf.
  { destruct (fault_point_some _ _ _ _ _ (proj1 Hq) Hf) as [Hs He].
    intros H. exfalso. destruct e; try (inversion H; fail).
    apply Hrep. split; [exact Hs|symmetry; exact He]. }
  pose proof (fault_point_quiet _ _ _ _ Hq Hf) as Hq1.
  destruct (pos + BS P <=? lenN (file_content c1 n)); intros H; inversion H; subst;
    (eapply quiet_ceq; [apply ceq_ev|exact Hq1]).
Qed.

Lemma next_file_loop_quiet : forall cands c rd rd' b,
  quiet p c -> next_file_loop P c cands rd = (rd', Ok b) -> quiet p (rd_ctx rd').
Proof.
  induction cands as [|n rest IH]; intros c rd rd' b Hq H; cbn [next_file_loop] in H.
  - inversion H; subst. exact Hq.
  - destruct (open_file c n) as [c1 [u|e]] eqn:Ho; [|inversion H].
    pose proof (open_file_quiet _ _ _ _ _ Hq Ho) as Hq1.
    destruct (read_block P c1 n 0) as [[c2 pos'] [[blk|]|e]] eqn:Hr; [| |inversion H];
      pose proof (read_block_quiet _ _ _ _ _ _ Hq1 Hr) as Hq2.
    + inversion H; subst. exact Hq2.
    + eapply IH; eassumption.
Qed.

Lemma rd_next_quiet rd rd' b :
  quiet p (rd_ctx rd) -> rd_next P rd = (rd', Ok b) -> quiet p (rd_ctx rd').
Proof.
  intros Hq. unfold rd_next.
  destruct (read_block P (rd_ctx rd) (rd_file rd) (rd_pos rd)) as [[c1 pos'] [[blk|]|e]] eqn:Hr;
    [| |intros H; inversion H]; pose proof (read_block_quiet _ _ _ _ _ _ Hq Hr) as Hq1.
  - intros H; inversion H; subst. exact Hq1.
  - intros H. eapply next_file_loop_quiet; eassumption.
Qed.

Lemma ensure_last_full_quiet c files c' u :
  quiet p c -> ensure_last_full P c files = (c', Ok u) -> quiet p c'.
Proof.
  intros Hq. unfold ensure_last_full.
  destruct (last_opt files) as [n|]; [|intros H; inversion H; subst; exact Hq].
  destruct (lenN (file_content c n) <? FILE_BYTES P); [|intros H; inversion H; subst; exact Hq].
  destruct (open_file c n) as [c1 [u1|e]] eqn:Ho; intros H; inversion H; subst.
  pose proof (open_file_quiet _ _ _ _ _ Hq Ho) as Hq1.
  eapply quiet_ceq; [|exact Hq1]. eapply ceq_trans; [apply ceq_fs|apply ceq_ev].
Qed.

Lemma rd_open_tail_quiet c2 files c rd :
  quiet p c2 -> rd_open_tail P c2 files = (c, Ok rd) -> quiet p (rd_ctx rd) /\ c = rd_ctx rd.
Proof.
  intros Hq. unfold rd_open_tail.
  destruct (if L_SHORT P then (c2, Ok tt) else ensure_last_full P c2 files) as [c2' [u|e]] eqn:He;
    [|intros H; inversion H].
  assert (Hq' : quiet p c2').
  { destruct (L_SHORT P); [inversion He; subst; exact Hq|].
    eapply ensure_last_full_quiet; eassumption. }
  set (first := match files with f :: _ => f | [] => 0 end).
  destruct (open_file c2' first) as [c3 [u'|e]] eqn:Ho; [|intros H; inversion H].
  pose proof (open_file_quiet _ _ _ _ _ Hq' Ho) as Hq3.
  destruct (read_block P c3 first 0) as [[c4 pos'] [[blk|]|e]] eqn:Hr;
    intros H; inversion H; subst.
  split; [|reflexivity]. cbn [rd_ctx]. eapply read_block_quiet; eassumption.
Qed.

Lemma rd_open_quiet fs c rd :
  rd_open P (ctx_init fs (Some p)) = (c, Ok rd) -> quiet p (rd_ctx rd) /\ c = rd_ctx rd.
Proof.
  rewrite rd_open_eq.
  assert (Hq0 : quiet p (ctx_ev (ctx_init fs (Some p)) EvReadDir)).
  { split; [reflexivity|]. unfold site_count. destruct (fp_site p); cbn; lia. }
  destruct (fault_point (ctx_ev (ctx_init fs (Some p)) EvReadDir) SReadDir) as [c1 [e|]] eqn:Hf;
    [intros H; inversion H|].
  pose proof (fault_point_quiet _ _ _ _ Hq0 Hf) as Hq1.
  destruct (list_wal_numbers (c_fs c1)) as [|x l].
  - destruct (create_file P c1 0) as [c' [u|e]] eqn:Hc; [|intros H; inversion H].
    apply rd_open_tail_quiet. eapply quiet_ceq; [eapply create_file_ceq; exact Hc|exact Hq1].
  - apply rd_open_tail_quiet. exact Hq1.
Qed.
End Reader.

(* ---------- Frame.v, generic in the block reader ---------- *)
Section GenericReader.
Variable P : params.
Variable R : Type.
Variable rnext : R -> R * res bool.
Variable rblock : R -> bytes.
Variable Q : R -> Prop.
Hypothesis rnext_Q : forall r r' b, Q r -> rnext r = (r', Ok b) -> Q r'.

Lemma read_frame_Q fr fr' res :
  Q (fr_rd fr) -> read_frame P R rnext rblock fr = (fr', res) ->
  (forall e, res <> FIo e) -> Q (fr_rd fr').
Proof.
  intros Hq H Hres. rewrite read_frame_eq in H.
  destruct (need_skip P fr).
  - destruct (rnext (fr_rd fr)) as [r' [[|]|e]] eqn:Hn.
    + apply read_here_spec in H. destruct H as [Hrd _]. rewrite Hrd. cbn [fr_rd].
      eapply rnext_Q; eassumption.
    + inversion H; subst. cbn [fr_rd]. eapply rnext_Q; eassumption.
    + inversion H; subst. exfalso. eapply Hres. reflexivity.
  - apply read_here_spec in H. destruct H as [Hrd _]. rewrite Hrd. exact Hq.
Qed.

Lemma go_next_Q : forall fuel rr rr' res,
  Q (fr_rd (rr_fr rr)) -> go_next P R rnext rblock fuel rr = (rr', res) ->
  (forall e, res <> RIo e) -> Q (fr_rd (rr_fr rr')).
Proof.
  induction fuel as [|f IH]; intros rr rr' res Hq H Hres.
  - cbn [go_next] in H. inversion H; subst. exact Hq.
  - rewrite go_next_S in H.
    destruct (read_frame P R rnext rblock (rr_fr rr)) as [fr' fres] eqn:Hrf.
    pose proof (read_frame_Q _ _ _ Hq Hrf) as Hq'.
    destruct fres as [t pl|e| |].
    + specialize (Hq' ltac:(discriminate)). cbv zeta in H.
      destruct (if is_first_frame t then true else rr_within rr).
      * destruct (is_last_frame t); [inversion H; subst; exact Hq'|].
        eapply IH; [|exact H|exact Hres]. exact Hq'.
      * eapply IH; [|exact H|exact Hres]. exact Hq'.
    + inversion H; subst. exfalso. eapply Hres. reflexivity.
    + inversion H; subst. apply Hq'. discriminate.
    + inversion H; subst. apply Hq'. discriminate.
Qed.
End GenericReader.

(* ---------- Frame.v, generic in the block writer ---------- *)
Section GenericWriter.
Variable P : params.
Variable W : Type.
Variable wwrite : W -> bytes -> W * res unit.
Variable wrem : W -> N.
Variable Q : W -> Prop.
Hypothesis wwrite_Q : forall w d w' u, Q w -> wwrite w d = (w', Ok u) -> Q w'.

Lemma write_frame_Q w t pl w' n :
  Q w -> write_frame P W wwrite wrem w t pl = (w', Ok n) -> Q w'.
Proof.
  intros Hq. unfold write_frame.
  destruct (wrem w <? HEADER_LEN).
  - destruct (wwrite w (zerosN (wrem w))) as [w1 [u|e]] eqn:H1.
    + pose proof (wwrite_Q _ _ _ _ Hq H1) as Hq1.
      destruct (wwrite w1 (frame_bytes P t pl)) as [w2 [u2|e]] eqn:H2; intros H; inversion H; subst.
      eapply wwrite_Q; eassumption.
    + intros H; inversion H.
  - destruct (wwrite w (frame_bytes P t pl)) as [w2 [u2|e]] eqn:H2; intros H; inversion H; subst.
    eapply wwrite_Q; eassumption.
Qed.

Lemma write_record_loop_Q : forall fuel w isf pl acc w' n,
  Q w -> write_record_loop P W wwrite wrem fuel w isf pl acc = (w', Ok n) -> Q w'.
Proof.
  induction fuel as [|f IH]; intros w isf pl acc w' n Hq H; cbn [write_record_loop] in H.
  - inversion H; subst. exact Hq.
  - cbv zeta in H.
    destruct (write_frame P W wwrite wrem w _ _) as [w1 [k|e]] eqn:Hw; [|inversion H].
    pose proof (write_frame_Q _ _ _ _ _ Hq Hw) as Hq1.
    destruct (isnil _); [inversion H; subst; exact Hq1|].
    eapply IH; eassumption.
Qed.

Lemma write_record_Q w pl w' n :
  Q w -> write_record P W wwrite wrem w pl = (w', Ok n) -> Q w'.
Proof. unfold write_record. apply write_record_loop_Q. Qed.
End GenericWriter.

(* ---------- the rolling writer ---------- *)
Section Writer.
Variable P : params.
Variable p : fplan.
Hypothesis Hrep : reportable p.

Lemma os_write_ceq c n off d : ceq c (os_write c n off d).
Proof. repeat split. Qed.

Lemma flush_buf_ceq w : ceq (w_ctx w) (w_ctx (flush_buf w)).
Proof. unfold flush_buf. destruct (w_pending w); [apply ceq_refl|]. repeat split. Qed.

Lemma bw_flush_ceq w : ceq (w_ctx w) (w_ctx (bw_flush w)).
Proof.
  unfold bw_flush, wr_ctx. cbn [w_ctx].
  eapply ceq_trans; [apply flush_buf_ceq|apply ceq_ev].
Qed.

Lemma sync_data_ceq w : ceq (w_ctx w) (w_ctx (sync_data w)).
Proof. repeat split. Qed.
Lemma sync_dir_ceq w : ceq (w_ctx w) (w_ctx (sync_dir w)).
Proof. repeat split. Qed.

Lemma roll_ceq w : ceq (w_ctx w) (w_ctx (sync_dir (sync_data (bw_flush w)))).
Proof.
  eapply ceq_trans; [apply bw_flush_ceq|].
  eapply ceq_trans; [apply sync_data_ceq|apply sync_dir_ceq].
Qed.

Lemma wr_persist_ceq w a : ceq (w_ctx w) (w_ctx (wr_persist w a)).
Proof. unfold wr_persist. destruct a; [apply roll_ceq|apply bw_flush_ceq]. Qed.

Lemma bw_write_all_ceq w d : ceq (w_ctx w) (w_ctx (bw_write_all P w d)).
Proof.
  unfold bw_write_all, bw_write_all0. cbn [w_ctx].
  destruct (lenN d <? BS P - lenN (w_pending w)); [apply ceq_refl|].
  destruct (BS P - lenN (w_pending w) <? lenN d).
  - destruct (BS P <=? lenN d); cbn [w_ctx].
    + eapply ceq_trans; [apply flush_buf_ceq|apply os_write_ceq].
    + apply flush_buf_ceq.
  - destruct (BS P <=? lenN d); cbn [w_ctx]; [apply os_write_ceq|apply ceq_refl].
Qed.

Lemma wr_write_quiet w d w' u :
  quiet p (w_ctx w) -> wr_write P w d = (w', Ok u) -> quiet p (w_ctx w').
Proof.
  intros Hq. unfold wr_write. destruct d as [|b d]; [intros H; inversion H; subst; exact Hq|].
  destruct (FILE_BYTES P <? w_off w + lenN (b :: d)).
  - set (w1 := sync_dir (sync_data (bw_flush w))).
    assert (Hq1 : quiet p (w_ctx w1)) by (eapply quiet_ceq; [apply roll_ceq|exact Hq]).
    destruct (tracker_next (w_files w1) (w_file w1)) as [nxt|].
    + destruct (open_file (w_ctx w1) nxt) as [c [u1|e]] eqn:Ho; intros H; inversion H; subst.
      eapply quiet_ceq; [apply bw_write_all_ceq|]. cbn [w_ctx].
      eapply open_file_quiet; eassumption.
    + destruct (create_file P (w_ctx w1) (w_file w1 + 1)) as [c [u1|e]] eqn:Hc;
        intros H; inversion H; subst.
      eapply quiet_ceq; [apply bw_write_all_ceq|]. cbn [w_ctx].
      eapply quiet_ceq; [eapply create_file_ceq; exact Hc|exact Hq1].
  - intros H; inversion H; subst. eapply quiet_ceq; [apply bw_write_all_ceq|exact Hq].
Qed.

Lemma gc_loop_ceq : forall files c refd c' files' r,
  gc_loop c files refd = (c', files', r) -> ceq c c'.
Proof.
  induction files as [|f rest IH]; intros c refd c' files' r H; cbn [gc_loop] in H.
  - inversion H; subst. apply ceq_refl.
  - destruct rest as [|g rest']; [inversion H; subst; apply ceq_refl|].
    destruct (refd f); [inversion H; subst; apply ceq_refl|].
    destruct (fs_get (c_fs c) (filename f)) as [[b| |]|].
    + apply IH in H. eapply ceq_trans; [|exact H]. repeat split.
    + inversion H; subst; apply ceq_refl.
    + apply IH in H. eapply ceq_trans; [|exact H]. repeat split.
    + inversion H; subst; apply ceq_refl.
Qed.

(* ---------- Log.v ---------- *)
Definition stq (st : state) : Prop := quiet p (w_ctx (s_wr st)).

Lemma write_entry_quiet st e st' n :
  stq st -> write_entry P st e = (st', Ok n) -> stq st'.
Proof.
  unfold stq, write_entry. intros Hq.
  destruct (write_record P rwriter (wr_write P) (wr_rem P) (s_wr st) (entry_ser e)) as [w r] eqn:Hw.
  intros H; inversion H; subst. cbn [s_wr set_wr].
  eapply (write_record_Q P rwriter (wr_write P) (wr_rem P) (fun w => quiet p (w_ctx w)));
    [|exact Hq|exact Hw].
  intros w0 d w0' u Hq0 Hw0. eapply wr_write_quiet; eassumption.
Qed.

Lemma persist_quiet st a : stq st -> stq (persist st a).
Proof.
  unfold stq, persist. cbn [s_wr set_wr]. intros Hq.
  eapply quiet_ceq; [apply wr_persist_ceq|exact Hq].
Qed.

Lemma record_positions_quiet : forall names st acc st' n,
  stq st -> record_positions P st names acc = (st', Ok n) -> stq st'.
Proof.
  induction names as [|x r IH]; intros st acc st' n Hq H; cbn [record_positions] in H.
  - inversion H; subst. exact Hq.
  - destruct (qs_get (s_qs st) x) as [q|]; [|eapply IH; eassumption].
    destruct (write_entry P st (EPosition x (next_position q))) as [st1 [k|e]] eqn:Hw; [|inversion H].
    eapply IH; [|exact H]. eapply write_entry_quiet; eassumption.
Qed.

Lemma record_empty_quiet st hint st' n :
  stq st -> record_empty_queues_position P st hint = (st', Ok n) -> stq st'.
Proof.
  intros Hq. unfold record_empty_queues_position.
  destruct (record_positions P st _ 0) as [st1 [k|e]] eqn:Hr; [|intros H; inversion H].
  pose proof (record_positions_quiet _ _ _ _ _ Hq Hr) as Hq1.
  destruct (L_GC P && (k =? 0)); intros H; inversion H; subst; [exact Hq1|].
  now apply persist_quiet.
Qed.

Lemma run_gc_quiet st hint st' n :
  stq st -> run_gc_if_necessary P st hint = (st', Ok n) -> stq st'.
Proof.
  intros Hq. unfold run_gc_if_necessary.
  destruct (has_deletable st); [|intros H; inversion H; subst; exact Hq].
  destruct (record_empty_queues_position P st hint) as [st1 [k|e]] eqn:Hr; [|intros H; inversion H].
  pose proof (record_empty_quiet _ _ _ _ Hq Hr) as Hq1.
  destruct (gc_loop (w_ctx (s_wr st1)) (w_files (s_wr st1)) _) as [[c files] [u|e]] eqn:Hg;
    intros H; inversion H; subst.
  unfold stq. cbn [s_wr set_wr w_ctx].
  eapply quiet_ceq; [eapply gc_loop_ceq; exact Hg|exact Hq1].
Qed.

(* ---------- replay ---------- *)
Lemma replay_loop_quiet : L_IO P = false -> forall f g rr qs rr' res,
  quiet p (reader_ctx rr) -> replay_loop P f g rr qs = (rr', res) ->
  (forall e, res <> RpIo e) -> quiet p (reader_ctx rr').
Proof.
  intros HIO. induction f as [|f IH]; intros g rr qs rr' res Hq H Hres.
  - cbn [replay_loop] in H. inversion H; subst. exact Hq.
  - rewrite replay_loop_S in H. cbv zeta in H.
    destruct (go_next P rreaderS (rd_next P) rd_block g rr) as [rr1 gres] eqn:Hgo.
    assert (Hq1 : (forall e, gres <> RIo e) -> quiet p (reader_ctx rr1)).
    { intros Hg. unfold reader_ctx in *.
      eapply (go_next_Q P rreaderS (rd_next P) rd_block (fun rd => quiet p (rd_ctx rd)));
        [|exact Hq|exact Hgo|exact Hg].
      intros r r' b Hr Hn. eapply (rd_next_quiet P p Hrep); eassumption. }
    destruct gres as [| | |e|].
    + specialize (Hq1 ltac:(discriminate)).
      destruct (entry_deser (rr_buf rr1)) as [e|].
      * destruct (apply_entry qs (rd_file (fr_rd (rr_fr rr))) e) as [qs'|].
        -- eapply IH; eassumption.
        -- inversion H; subst. exact Hq1.
      * eapply IH; eassumption.
    + inversion H; subst. apply Hq1. discriminate.
    + eapply IH; [|exact H|exact Hres]. apply Hq1. discriminate.
    + rewrite HIO in H. inversion H; subst. exfalso. eapply Hres. reflexivity.
    + inversion H; subst. apply Hq1. discriminate.
Qed.

(* ---------- open ---------- *)
Lemma open_with_quiet fuel fs pol hint :
  L_IO P = false ->
  match open_with P fuel fs (Some p) pol hint with
  | OpenOk st => quiet p (w_ctx (s_wr st))
  | OpenCorruption c => quiet p c
  | OpenFuel c => quiet p c
  | OpenIo _ _ => True
  end.
Proof.
  intros HIO. unfold open_with.
  destruct (rd_open P (ctx_init fs (Some p))) as [c [rd|e]] eqn:Ho; [|exact I].
  apply (rd_open_quiet P p Hrep) in Ho. destruct Ho as [Hq _].
  destruct (replay_loop P fuel fuel (rr_open rreaderS rd) []) as [rr rp] eqn:Hrp.
  assert (Hq1 : (forall e, rp <> RpIo e) -> quiet p (reader_ctx rr)).
  { intros Hn. eapply replay_loop_quiet; [exact HIO| |exact Hrp|exact Hn]. exact Hq. }
  destruct rp as [qs| |e|]; [|apply Hq1; discriminate|exact I|apply Hq1; discriminate].
  specialize (Hq1 ltac:(discriminate)).
  destruct (run_gc_if_necessary P _ hint) as [st1 [n|e]] eqn:Hg; [|exact I].
  eapply run_gc_quiet; [|exact Hg]. exact Hq1.
Qed.

(* C11 *)
Theorem open_reports_io fs pol hint st :
  L_IO P = false ->
  open P fs (Some p) pol hint = OpenOk st -> ~ fired p (w_ctx (s_wr st)).
Proof.
  intros HIO H. apply quiet_not_fired.
  pose proof (open_with_quiet (open_fuel P fs) fs pol hint HIO) as Hq.
  unfold open in H. rewrite H in Hq. exact Hq.
Qed.

Theorem open_reports_io_corruption fs pol hint c :
  L_IO P = false ->
  open P fs (Some p) pol hint = OpenCorruption c -> ~ fired p c.
Proof.
  intros HIO H. apply quiet_not_fired.
  pose proof (open_with_quiet (open_fuel P fs) fs pol hint HIO) as Hq.
  unfold open in H. rewrite H in Hq. exact Hq.
Qed.

(* with C10: once the injected failure has happened, the only possible result is OpenIo *)
Theorem open_fired_is_io fs pol hint :
  L_IO P = false -> 7 < BS P ->
  match open P fs (Some p) pol hint with
  | OpenOk st => ~ fired p (w_ctx (s_wr st))
  | OpenCorruption c => ~ fired p c
  | OpenIo _ _ => True
  | OpenFuel _ => False
  end.
Proof.
  intros HIO HBS.
  pose proof (open_with_quiet (open_fuel P fs) fs pol hint HIO) as Hq.
  pose proof (fun c => open_never_out_of_fuel P HBS fs (Some p) pol hint c HIO) as Hnf.
  unfold open in *. destruct (open_with P (open_fuel P fs) fs (Some p) pol hint).
  - now apply quiet_not_fired.
  - exact I.
  - now apply quiet_not_fired.
  - eapply Hnf. reflexivity.
Qed.
End Writer.


(* ====================================================================== *)
(* R2: the excluded case — site Read, kind UnexpectedEof.                  *)
(* Such a fault is never reported by a read: read_block turns it into       *)
(* "no more blocks in this file" (directory.rs read_block: Ok(false)), as   *)
(* if the file were cut at that block. The only way the kind UnexpectedEof  *)
(* reaches the caller of open is RollingReader::open's first read.          *)
(* ====================================================================== *)
Definition planned (p : fplan) (c : ioctx) : Prop := c_plan c = Some p.
Definition not_eof {A} (r : res A) : Prop := r <> Err IoUnexpectedEof.

Lemma planned_ceq p c c' : ceq c c' -> planned p c -> planned p c'.
Proof. unfold ceq, planned. intros (H1 & _). congruence. Qed.

Lemma fault_point_planned p c s : planned p c -> planned p (fst (fault_point c s)).
Proof.
  unfold planned, fault_point. intros Hp. rewrite Hp.
  destruct (_ && _); destruct s; cbn [fst c_plan]; reflexivity.
Qed.

Lemma create_file_not_eof P c n c' r : create_file P c n = (c', r) -> not_eof r.
Proof.
  unfold create_file. destruct (fs_get (c_fs c) (filename n)); intros H; inversion H; subst;
    intros X; discriminate X.
Qed.

Lemma gc_loop_not_eof : forall files c refd c' files' r,
  gc_loop c files refd = (c', files', r) -> not_eof r.
Proof.
  induction files as [|f rest IH]; intros c refd c' files' r H; cbn [gc_loop] in H.
  - inversion H; subst. intros X; discriminate X.
  - destruct rest as [|g rest']; [inversion H; subst; intros X; discriminate X|].
    destruct (refd f); [inversion H; subst; intros X; discriminate X|].
    destruct (fs_get (c_fs c) (filename f)) as [[b| |]|].
    + eapply IH; exact H.
    + inversion H; subst; intros X; discriminate X.
    + eapply IH; exact H.
    + inversion H; subst; intros X; discriminate X.
Qed.

(* the generic frame/record layers only pass on the errors of the block reader / writer *)
Section GenericReaderErr.
Variable P : params.
Variable R : Type.
Variable rnext : R -> R * res bool.
Variable rblock : R -> bytes.
Variable Q : R -> Prop.
Hypothesis rnext_QE : forall r r' x, Q r -> rnext r = (r', x) -> Q r' /\ not_eof x.

Lemma read_frame_QE fr fr' res :
  Q (fr_rd fr) -> read_frame P R rnext rblock fr = (fr', res) ->
  Q (fr_rd fr') /\ res <> FIo IoUnexpectedEof.
Proof.
  intros Hq H. rewrite read_frame_eq in H.
  destruct (need_skip P fr).
  - destruct (rnext (fr_rd fr)) as [r' x] eqn:Hn.
    destruct (rnext_QE _ _ _ Hq Hn) as [Hq' Hne].
    destruct x as [[|]|e].
    + apply read_here_spec in H. destruct H as [Hrd Hm]. rewrite Hrd. cbn [fr_rd].
      split; [exact Hq'|]. intros X; subst res. exact Hm.
    + inversion H; subst. cbn [fr_rd]. split; [exact Hq'|discriminate].
    + inversion H; subst. cbn [fr_rd]. split; [exact Hq'|].
      intros X; inversion X; subst. apply Hne. reflexivity.
  - apply read_here_spec in H. destruct H as [Hrd Hm]. rewrite Hrd.
    split; [exact Hq|]. intros X; subst res. exact Hm.
Qed.

Lemma go_next_QE : forall fuel rr rr' res,
  Q (fr_rd (rr_fr rr)) -> go_next P R rnext rblock fuel rr = (rr', res) ->
  Q (fr_rd (rr_fr rr')) /\ res <> RIo IoUnexpectedEof.
Proof.
  induction fuel as [|f IH]; intros rr rr' res Hq H.
  - cbn [go_next] in H. inversion H; subst. split; [exact Hq|discriminate].
  - rewrite go_next_S in H.
    destruct (read_frame P R rnext rblock (rr_fr rr)) as [fr' fres] eqn:Hrf.
    destruct (read_frame_QE _ _ _ Hq Hrf) as [Hq' Hne].
    destruct fres as [t pl|e| |].
    + cbv zeta in H.
      destruct (if is_first_frame t then true else rr_within rr).
      * destruct (is_last_frame t); [inversion H; subst; split; [exact Hq'|discriminate]|].
        eapply IH; [|exact H]. exact Hq'.
      * eapply IH; [|exact H]. exact Hq'.
    + inversion H; subst. split; [exact Hq'|].
      intros X; inversion X; subst. apply Hne. reflexivity.
    + inversion H; subst. split; [exact Hq'|discriminate].
    + inversion H; subst. split; [exact Hq'|discriminate].
Qed.
End GenericReaderErr.

Section GenericWriterErr.
Variable P : params.
Variable W : Type.
Variable wwrite : W -> bytes -> W * res unit.
Variable wrem : W -> N.
Variable Q : W -> Prop.
Hypothesis wwrite_QE : forall w d w' r, Q w -> wwrite w d = (w', r) -> Q w' /\ not_eof r.

Lemma write_frame_QE w t pl w' r :
  Q w -> write_frame P W wwrite wrem w t pl = (w', r) -> Q w' /\ not_eof r.
Proof.
  intros Hq. unfold write_frame.
  destruct (wrem w <? HEADER_LEN).
  - destruct (wwrite w (zerosN (wrem w))) as [w1 [u|e]] eqn:H1;
      destruct (wwrite_QE _ _ _ _ Hq H1) as [Hq1 Hn1].
    + destruct (wwrite w1 (frame_bytes P t pl)) as [w2 [u2|e]] eqn:H2;
        destruct (wwrite_QE _ _ _ _ Hq1 H2) as [Hq2 Hn2]; intros H; inversion H; subst;
        (split; [exact Hq2|]); [intros X; discriminate X|].
      intros X; inversion X; subst. apply Hn2. reflexivity.
    + intros H; inversion H; subst. split; [exact Hq1|].
      intros X; inversion X; subst. apply Hn1. reflexivity.
  - destruct (wwrite w (frame_bytes P t pl)) as [w2 [u2|e]] eqn:H2;
      destruct (wwrite_QE _ _ _ _ Hq H2) as [Hq2 Hn2]; intros H; inversion H; subst;
      (split; [exact Hq2|]); [intros X; discriminate X|].
    intros X; inversion X; subst. apply Hn2. reflexivity.
Qed.

Lemma write_record_loop_QE : forall fuel w isf pl acc w' r,
  Q w -> write_record_loop P W wwrite wrem fuel w isf pl acc = (w', r) -> Q w' /\ not_eof r.
Proof.
  induction fuel as [|f IH]; intros w isf pl acc w' r Hq H; cbn [write_record_loop] in H.
  - inversion H; subst. split; [exact Hq|intros X; discriminate X].
  - cbv zeta in H.
    destruct (write_frame P W wwrite wrem w _ _) as [w1 [k|e]] eqn:Hw;
      destruct (write_frame_QE _ _ _ _ _ Hq Hw) as [Hq1 Hn1].
    + destruct (isnil _); [inversion H; subst; split; [exact Hq1|intros X; discriminate X]|].
      eapply IH; eassumption.
    + inversion H; subst. split; [exact Hq1|].
      intros X; inversion X; subst. apply Hn1. reflexivity.
Qed.

Lemma write_record_QE w pl w' r :
  Q w -> write_record P W wwrite wrem w pl = (w', r) -> Q w' /\ not_eof r.
Proof. unfold write_record. apply write_record_loop_QE. Qed.
End GenericWriterErr.

Section Absorbed.
Variable P : params.
Variable p : fplan.
Hypothesis Habs : absorbed p.

(* the plan never fires at the other sites *)
Lemma open_file_abs c n c' r :
  planned p c -> open_file c n = (c', r) -> planned p c' /\ not_eof r.
Proof.
  intros Hp. unfold open_file. pose proof (fault_point_planned p c SOpen Hp) as Hp1.
  destruct (fault_point c SOpen) as [c1 [e|]] eqn:Hf; cbn [fst] in Hp1.
  - destruct (fault_point_some _ _ _ _ _ Hp Hf) as [Hs _]. destruct Habs as [Hs' _].
    rewrite Hs' in Hs. discriminate Hs.
  - destruct (fs_get (c_fs c1) (filename n)) as [[b| |]|]; intros H; inversion H; subst;
      (split; [first [exact Hp1|eapply planned_ceq; [apply ceq_ev|exact Hp1]]
              |intros X; discriminate X]).
Qed.

(* when it fires at a read, the read is a short read at an unchanged position *)
Lemma read_block_absorbed c n pos c1 e :
  planned p c -> fault_point c SRead = (c1, Some e) ->
  read_block P c n pos = (ctx_ev c1 (EvRead (filename n) pos (BS P) false), pos, Ok None).
Proof.
  intros Hp Hf. unfold read_block. rewrite Hf.
  destruct (fault_point_some _ _ _ _ _ Hp Hf) as [_ He]. destruct Habs as [_ Hk].
  rewrite He, Hk. reflexivity.
Qed.

(* ... which is, position and result, the read of the same file cut at that block *)
Lemma read_block_absorbed_as_cut c n pos c1 e :
  0 < BS P -> planned p c -> fault_point c SRead = (c1, Some e) ->
  let cut := ctx_fs (ctx_init (c_fs c) None)
               (fs_put (c_fs c) (filename n) (FFile (takeN pos (file_content c n)))) in
  forall c' pos' r, read_block P cut n pos = (c', pos', r) ->
  snd (fst (read_block P c n pos)) = pos' /\ snd (read_block P c n pos) = r /\
  c_ev c' = [EvRead (filename n) pos (BS P) false].
Proof.
  intros HBS Hp Hf cut c' pos' r. rewrite (read_block_absorbed c n pos c1 e Hp Hf).
  cbn [fst snd]. unfold cut. set (b0 := file_content c n).
  unfold read_block, ctx_fs, ctx_init, fault_point, file_content.
  cbn [c_plan c_fs c_ev c_nreaddir c_nopen c_nread ctx_ev].
  rewrite fs_get_put, bytes_eqb_refl.
  pose proof (lenN_takeN pos b0) as Hl.
  destruct (N.leb_spec (pos + BS P) (lenN (takeN pos b0))) as [Hle|Hgt].
  - exfalso. lia.
  - intros H; inversion H; subst. repeat split. lia.
Qed.

Lemma read_block_abs c n pos c' pos' r :
  planned p c -> read_block P c n pos = (c', pos', r) -> planned p c' /\ exists x, r = Ok x.
Proof.
  intros Hp. pose proof (fault_point_planned p c SRead Hp) as Hp1.
  destruct (fault_point c SRead) as [c1 [e|]] eqn:Hf; cbn [fst] in Hp1.
  - rewrite (read_block_absorbed c n pos c1 e Hp Hf). intros H; inversion H; subst.
    split; [eapply planned_ceq; [apply ceq_ev|exact Hp1]|eexists; reflexivity].
  - unfold read_block. rewrite Hf.
    destruct (pos + BS P <=? lenN (file_content c1 n)); intros H; inversion H; subst;
      (split; [eapply planned_ceq; [apply ceq_ev|exact Hp1]|eexists; reflexivity]).
Qed.

Lemma next_file_loop_abs : forall cands c rd rd' r,
  planned p c -> next_file_loop P c cands rd = (rd', r) -> planned p (rd_ctx rd') /\ not_eof r.
Proof.
  induction cands as [|n rest IH]; intros c rd rd' r Hp H; cbn [next_file_loop] in H.
  - inversion H; subst. split; [exact Hp|intros X; discriminate X].
  - destruct (open_file c n) as [c1 ro] eqn:Ho.
    destruct (open_file_abs _ _ _ _ Hp Ho) as [Hp1 Hn1].
    destruct ro as [u|e].
    + destruct (read_block P c1 n 0) as [[c2 pos'] rr] eqn:Hr.
      destruct (read_block_abs _ _ _ _ _ _ Hp1 Hr) as [Hp2 [x Hx]]. subst rr.
      destruct x as [blk|].
      * inversion H; subst. split; [exact Hp2|intros X; discriminate X].
      * eapply IH; eassumption.
    + inversion H; subst. split; [exact Hp1|].
      intros X; inversion X; subst. apply Hn1. reflexivity.
Qed.

Lemma rd_next_abs rd rd' r :
  planned p (rd_ctx rd) -> rd_next P rd = (rd', r) -> planned p (rd_ctx rd') /\ not_eof r.
Proof.
  intros Hp. unfold rd_next.
  destruct (read_block P (rd_ctx rd) (rd_file rd) (rd_pos rd)) as [[c1 pos'] rr] eqn:Hr.
  destruct (read_block_abs _ _ _ _ _ _ Hp Hr) as [Hp1 [x Hx]]. subst rr.
  destruct x as [blk|].
  - intros H; inversion H; subst. split; [exact Hp1|intros X; discriminate X].
  - intros H. eapply next_file_loop_abs; eassumption.
Qed.

Lemma replay_loop_abs : forall f g rr qs rr' res,
  planned p (reader_ctx rr) -> replay_loop P f g rr qs = (rr', res) ->
  planned p (reader_ctx rr') /\ res <> RpIo IoUnexpectedEof.
Proof.
  induction f as [|f IH]; intros g rr qs rr' res Hp H.
  - cbn [replay_loop] in H. inversion H; subst. split; [exact Hp|discriminate].
  - rewrite replay_loop_S in H. cbv zeta in H.
    destruct (go_next P rreaderS (rd_next P) rd_block g rr) as [rr1 gres] eqn:Hgo.
    assert (Hq1 : planned p (reader_ctx rr1) /\ gres <> RIo IoUnexpectedEof).
    { unfold reader_ctx in *.
      eapply (go_next_QE P rreaderS (rd_next P) rd_block (fun rd => planned p (rd_ctx rd)));
        [|exact Hp|exact Hgo].
      intros r r' x Hr Hn. eapply rd_next_abs; eassumption. }
    destruct Hq1 as [Hp1 Hne].
    destruct gres as [| | |e|].
    + destruct (entry_deser (rr_buf rr1)) as [e|].
      * destruct (apply_entry qs (rd_file (fr_rd (rr_fr rr))) e) as [qs'|].
        -- eapply IH; eassumption.
        -- inversion H; subst. split; [exact Hp1|discriminate].
      * eapply IH; eassumption.
    + inversion H; subst. split; [exact Hp1|discriminate].
    + eapply IH; eassumption.
    + destruct (L_IO P); [eapply IH; eassumption|].
      inversion H; subst. split; [exact Hp1|].
      intros X; inversion X; subst. apply Hne. reflexivity.
    + inversion H; subst. split; [exact Hp1|discriminate].
Qed.

Lemma wr_write_abs w d w' r :
  planned p (w_ctx w) -> wr_write P w d = (w', r) -> planned p (w_ctx w') /\ not_eof r.
Proof.
  intros Hp. unfold wr_write.
  destruct d as [|b d]; [intros H; inversion H; subst; split; [exact Hp|intros X; discriminate X]|].
  destruct (FILE_BYTES P <? w_off w + lenN (b :: d)).
  - set (w1 := sync_dir (sync_data (bw_flush w))).
    assert (Hp1 : planned p (w_ctx w1)) by (eapply planned_ceq; [apply roll_ceq|exact Hp]).
    destruct (tracker_next (w_files w1) (w_file w1)) as [nxt|].
    + destruct (open_file (w_ctx w1) nxt) as [c ro] eqn:Ho.
      destruct (open_file_abs _ _ _ _ Hp1 Ho) as [Hp2 Hn2].
      destruct ro as [u1|e]; intros H; inversion H; subst.
      * split; [|intros X; discriminate X].
        eapply planned_ceq; [apply bw_write_all_ceq|]. exact Hp2.
      * split; [exact Hp2|]. intros X; inversion X; subst. apply Hn2. reflexivity.
    + destruct (create_file P (w_ctx w1) (w_file w1 + 1)) as [c ro] eqn:Hc.
      pose proof (create_file_not_eof _ _ _ _ _ Hc) as Hn2.
      assert (Hp2 : planned p c) by (eapply planned_ceq; [eapply create_file_ceq; exact Hc|exact Hp1]).
      destruct ro as [u1|e]; intros H; inversion H; subst.
      * split; [|intros X; discriminate X].
        eapply planned_ceq; [apply bw_write_all_ceq|]. exact Hp2.
      * split; [exact Hp2|]. intros X; inversion X; subst. apply Hn2. reflexivity.
  - intros H; inversion H; subst.
    split; [eapply planned_ceq; [apply bw_write_all_ceq|exact Hp]|intros X; discriminate X].
Qed.

Definition stp (st : state) : Prop := planned p (w_ctx (s_wr st)).

Lemma write_entry_abs st e st' r :
  stp st -> write_entry P st e = (st', r) -> stp st' /\ not_eof r.
Proof.
  unfold stp, write_entry. intros Hp.
  destruct (write_record P rwriter (wr_write P) (wr_rem P) (s_wr st) (entry_ser e)) as [w r0] eqn:Hw.
  intros H; inversion H; subst. cbn [s_wr set_wr].
  eapply (write_record_QE P rwriter (wr_write P) (wr_rem P) (fun w => planned p (w_ctx w)));
    [|exact Hp|exact Hw].
  intros w0 d w0' u Hq0 Hw0. eapply wr_write_abs; eassumption.
Qed.

Lemma persist_abs st a : stp st -> stp (persist st a).
Proof.
  unfold stp, persist. cbn [s_wr set_wr]. intros Hp.
  eapply planned_ceq; [apply wr_persist_ceq|exact Hp].
Qed.

Lemma record_positions_abs : forall names st acc st' r,
  stp st -> record_positions P st names acc = (st', r) -> stp st' /\ not_eof r.
Proof.
  induction names as [|x l IH]; intros st acc st' r Hp H; cbn [record_positions] in H.
  - inversion H; subst. split; [exact Hp|intros X; discriminate X].
  - destruct (qs_get (s_qs st) x) as [q|]; [|eapply IH; eassumption].
    destruct (write_entry P st (EPosition x (next_position q))) as [st1 ro] eqn:Hw.
    destruct (write_entry_abs _ _ _ _ Hp Hw) as [Hp1 Hn1].
    destruct ro as [k|e]; [eapply IH; eassumption|].
    inversion H; subst. split; [exact Hp1|exact Hn1].
Qed.

Lemma record_empty_abs st hint st' r :
  stp st -> record_empty_queues_position P st hint = (st', r) -> stp st' /\ not_eof r.
Proof.
  intros Hp. unfold record_empty_queues_position.
  destruct (record_positions P st _ 0) as [st1 ro] eqn:Hr.
  destruct (record_positions_abs _ _ _ _ _ Hp Hr) as [Hp1 Hn1].
  destruct ro as [k|e]; [|intros H; inversion H; subst; split; [exact Hp1|exact Hn1]].
  destruct (L_GC P && (k =? 0)); intros H; inversion H; subst;
    (split; [|intros X; discriminate X]); [exact Hp1|now apply persist_abs].
Qed.

Lemma run_gc_abs st hint st' r :
  stp st -> run_gc_if_necessary P st hint = (st', r) -> stp st' /\ not_eof r.
Proof.
  intros Hp. unfold run_gc_if_necessary.
  destruct (has_deletable st);
    [|intros H; inversion H; subst; split; [exact Hp|intros X; discriminate X]].
  destruct (record_empty_queues_position P st hint) as [st1 ro] eqn:Hr.
  destruct (record_empty_abs _ _ _ _ Hp Hr) as [Hp1 Hn1].
  destruct ro as [k|e]; [|intros H; inversion H; subst; split; [exact Hp1|exact Hn1]].
  destruct (gc_loop (w_ctx (s_wr st1)) (w_files (s_wr st1)) _) as [[c files] rg] eqn:Hg.
  pose proof (gc_loop_not_eof _ _ _ _ _ _ Hg) as Hn2.
  assert (Hp2 : planned p c) by (eapply planned_ceq; [eapply gc_loop_ceq; exact Hg|exact Hp1]).
  destruct rg as [u|e]; intros H; inversion H; subst; unfold stp; cbn [s_wr set_wr w_ctx];
    (split; [exact Hp2|]); [intros X; discriminate X|].
  intros X; inversion X; subst. apply Hn2. reflexivity.
Qed.

Lemma ensure_last_full_abs c files c' r :
  planned p c -> ensure_last_full P c files = (c', r) -> planned p c'.
Proof.
  intros Hp. unfold ensure_last_full.
  destruct (last_opt files) as [n|]; [|intros H; inversion H; subst; exact Hp].
  destruct (lenN (file_content c n) <? FILE_BYTES P); [|intros H; inversion H; subst; exact Hp].
  destruct (open_file c n) as [c1 ro] eqn:Ho.
  destruct (open_file_abs _ _ _ _ Hp Ho) as [Hp1 _].
  destruct ro as [u1|e]; intros H; inversion H; subst; [|exact Hp1].
  eapply planned_ceq; [|exact Hp1]. eapply ceq_trans; [apply ceq_fs|apply ceq_ev].
Qed.

Lemma rd_open_tail_abs c2 files c rd :
  planned p c2 -> rd_open_tail P c2 files = (c, Ok rd) -> planned p (rd_ctx rd).
Proof.
  intros Hp. unfold rd_open_tail.
  destruct (if L_SHORT P then (c2, Ok tt) else ensure_last_full P c2 files) as [c2' [u|e]] eqn:He;
    [|intros H; inversion H].
  assert (Hp' : planned p c2').
  { destruct (L_SHORT P); [inversion He; subst; exact Hp|].
    eapply ensure_last_full_abs; eassumption. }
  set (first := match files with f :: _ => f | [] => 0 end).
  destruct (open_file c2' first) as [c3 [u'|e]] eqn:Ho; [|intros H; inversion H].
  destruct (open_file_abs _ _ _ _ Hp' Ho) as [Hp3 _].
  destruct (read_block P c3 first 0) as [[c4 pos'] [[blk|]|e]] eqn:Hr;
    intros H; inversion H; subst.
  cbn [rd_ctx]. eapply read_block_abs; eassumption.
Qed.

Lemma rd_open_abs fs c rd :
  rd_open P (ctx_init fs (Some p)) = (c, Ok rd) -> planned p (rd_ctx rd).
Proof.
  rewrite rd_open_eq.
  assert (Hp0 : planned p (ctx_ev (ctx_init fs (Some p)) EvReadDir)) by reflexivity.
  pose proof (fault_point_planned p _ SReadDir Hp0) as Hp1.
  destruct (fault_point (ctx_ev (ctx_init fs (Some p)) EvReadDir) SReadDir) as [c1 [e|]] eqn:Hf;
    [intros H; inversion H|]. cbn [fst] in Hp1.
  destruct (list_wal_numbers (c_fs c1)) as [|x l].
  - destruct (create_file P c1 0) as [c' [u|e]] eqn:Hc; [|intros H; inversion H].
    apply rd_open_tail_abs. eapply planned_ceq; [eapply create_file_ceq; exact Hc|exact Hp1].
  - apply rd_open_tail_abs. exact Hp1.
Qed.

(* every outcome of open: the kind UnexpectedEof is reported only by rd_open; after rd_open has
   succeeded no read reports anything. No premise on L_IO. *)
Lemma open_with_abs fuel fs pol hint c :
  open_with P fuel fs (Some p) pol hint = OpenIo IoUnexpectedEof c ->
  rd_open P (ctx_init fs (Some p)) = (c, Err IoUnexpectedEof).
Proof.
  unfold open_with.
  destruct (rd_open P (ctx_init fs (Some p))) as [c0 [rd|e]] eqn:Ho;
    [|intros H; inversion H; subst; reflexivity].
  apply rd_open_abs in Ho. intros H. exfalso.
  destruct (replay_loop P fuel fuel (rr_open rreaderS rd) []) as [rr rp] eqn:Hrp.
  destruct (replay_loop_abs _ _ (rr_open rreaderS rd) _ _ _ Ho Hrp) as [Hp1 Hne].
  destruct rp as [qs| |e|]; try discriminate H.
  - destruct (run_gc_if_necessary P _ hint) as [st1 [n|e]] eqn:Hg; [discriminate H|].
    assert (Hn : @not_eof N (Err e)) by (eapply run_gc_abs; [|exact Hg]; exact Hp1).
    inversion H; subst. apply Hn. reflexivity.
  - inversion H; subst. apply Hne. reflexivity.
Qed.

(* The injected kind reaches the caller of open only through RollingReader::open's first read
   (`?` on read_block's Ok(false) => UnexpectedEof); every later firing is absorbed. *)
Theorem open_absorbed_eof_only_first_read fs pol hint c :
  open P fs (Some p) pol hint = OpenIo IoUnexpectedEof c ->
  rd_open P (ctx_init fs (Some p)) = (c, Err IoUnexpectedEof).
Proof. unfold open. apply open_with_abs. Qed.
End Absorbed.

Check open_reports_io.
Check open_reports_io_corruption.
Check open_fired_is_io.
Print Assumptions open_reports_io.
Print Assumptions open_reports_io_corruption.
Print Assumptions open_fired_is_io.
Check open_absorbed_eof_only_first_read.
Print Assumptions open_absorbed_eof_only_first_read.
Print Assumptions read_block_absorbed.
Print Assumptions read_block_absorbed_as_cut.
