(* RestartCorollaries.v — the restart halves of C04 (positions never regress nor get reused) and of
   C18 (queue isolation), as corollaries of the end-to-end restart theorem RestartFinal.hrun_inv:
   a history of API calls and clean restarts (in any order) is observationally the run of the
   sequential specification over the calls alone.

   0. the calls of a history with their ticks; hrun on a concatenation; observations.
   1. C04 across restarts: positions_with_restarts (from any state with the restart invariant),
      positions_fresh_with_restarts (from a fresh directory), after_truncate_with_restarts,
      restart_keeps_next, next_call_survives_restart, next_position_survives_restart.
   2. C18 across restarts: projection_with_restarts_inv / projection_with_restarts. *)
From Coq Require Import Lia ZArith ZifyN ZifyNat ZifyBool List Sorted.
From MRL Require Import Bytes BytesProofs Params Names NamesProofs Frame Record Mem Spec Rolling Log
  Driver Hist NoopProofs WriterProofs SpecRefine GhostLog QueueIso RestartInv RestartFinal.

Arguments N.add : simpl never.
Arguments N.sub : simpl never.
Arguments N.mul : simpl never.
Arguments N.eqb : simpl never.
Arguments N.ltb : simpl never.
Arguments N.leb : simpl never.
Arguments N.div : simpl never.
Arguments N.modulo : simpl never.

(* ====================================================================== *)
(* 0. histories with restarts: calls, projection                          *)
(* ====================================================================== *)

(* the calls of a history with their ticks (hrun returns one outcome per CALL, none per restart),
   in the shape QueueIso.log_never_deleted / log_lasts / on_queue expect *)
Fixpoint hcalls_t (h : list hop) : list (op * bool) :=
  match h with
  | [] => []
  | HCall o t :: r => (o, t) :: hcalls_t r
  | HRestart _ _ :: r => hcalls_t r
  end.

Lemma hcalls_t_fst h : map fst (hcalls_t h) = hcalls h.
Proof.
  induction h as [|[o t|pol hint] h IH]; [reflexivity| |exact IH].
  cbn [hcalls_t hcalls map fst]. now rewrite IH.
Qed.

Lemma hcalls_t_sop h : map (fun ot : op * bool => sop_of (fst ot)) (hcalls_t h) = map sop_of (hcalls h).
Proof. rewrite <- hcalls_t_fst, map_map. reflexivity. Qed.

(* the sub-history of q: every restart, and only the calls addressed to q *)
Definition hkeep (q : bytes) (x : hop) : bool :=
  match x with
  | HCall o _ => addressed q (sop_of o)
  | HRestart _ _ => true
  end.
Definition hproj (q : bytes) (h : list hop) : list hop := filter (hkeep q) h.

Lemma hcalls_t_hproj q h : hcalls_t (hproj q h) = filter (on_queue q) (hcalls_t h).
Proof.
  unfold hproj. induction h as [|[o t|pol hint] h IH]; [reflexivity| |exact IH].
  cbn [filter hkeep hcalls_t]. unfold on_queue at 1. cbn [fst].
  destruct (addressed q (sop_of o)); cbn [hcalls_t]; now rewrite IH.
Qed.

Lemma hcalls_hproj q h :
  map sop_of (hcalls (hproj q h)) = filter (addressed q) (map sop_of (hcalls h)).
Proof.
  rewrite <- !hcalls_t_sop, hcalls_t_hproj. symmetry.
  exact (filter_map_comm (addressed q) (fun ot : op * bool => sop_of (fst ot)) (hcalls_t h)).
Qed.

Lemma forall_no_io outs : Forall no_io outs -> forallb (fun o => negb (is_io o)) outs = true.
Proof.
  induction 1 as [|o outs Ho _ IH]; [reflexivity|]. cbn [forallb]. rewrite IH.
  destruct o; try reflexivity. exfalso. exact (Ho e eq_refl).
Qed.

Section Corollaries.
Variable P : params.
Hypothesis HBS_lo : 7 < BS P.
Hypothesis HBS_hi : BS P <= 65542.
Hypothesis HNB : 1 <= NB P.
Hypothesis Hcrc : forall t p, crcf P t p < 2 ^ 32.
Hypothesis HGC : L_GC P = false.
Hypothesis HIO : L_IO P = false.

Local Notation HF f := (f P HBS_lo HBS_hi HNB Hcrc HGC HIO) (only parsing).
Local Notation Inv := (Inv P).
Local Notation hrun := (hrun P).
Local Notation hist_ok := (hist_ok P).
Local Notation restart := (restart P).
Local Notation restart_bound := (restart_bound P).

(* ---------- hrun / hist_ok on a concatenation ---------- *)

Lemma hrun_app h1 : forall st h2,
  hrun st (h1 ++ h2) =
  match hrun st h1 with
  | Some (st1, outs1) =>
      match hrun st1 h2 with
      | Some (st2, outs2) => Some (st2, outs1 ++ outs2)
      | None => None
      end
  | None => None
  end.
Proof.
  induction h1 as [|[o t|pol hint] h1 IH]; intros st h2.
  - cbn [app hrun]. destruct (hrun st h2) as [[st2 outs2]|]; reflexivity.
  - cbn [app hrun]. destruct (step P st o t) as [st1 out]. rewrite IH.
    destruct (hrun st1 h1) as [[st2 outs1]|]; [|reflexivity].
    destruct (hrun st2 h2) as [[st3 outs2]|]; reflexivity.
  - cbn [app hrun]. destruct (restart st pol hint) as [st1| | |]; try reflexivity. apply IH.
Qed.

Lemma hist_ok_app h1 : forall st h2 st1 outs1,
  hist_ok st (h1 ++ h2) -> hrun st h1 = Some (st1, outs1) -> hist_ok st h1 /\ hist_ok st1 h2.
Proof.
  induction h1 as [|[o t|pol hint] h1 IH]; intros st h2 st1 outs1 Hok Hr.
  - cbn [hrun] in Hr. injection Hr as <- <-. split; [exact I|exact Hok].
  - cbn [app hist_ok] in Hok. destruct Hok as (H1 & H2 & Hok). cbn [hrun] in Hr. cbn [hist_ok].
    destruct (step P st o t) as [sa out]. cbn [fst] in *.
    destruct (hrun sa h1) as [[sb outs]|] eqn:Er; [|discriminate Hr]. injection Hr as <- <-.
    destruct (IH _ _ _ _ Hok Er) as (Ha & Hb). auto.
  - cbn [app hist_ok] in Hok. destruct Hok as (H1 & Hok). cbn [hrun] in Hr. cbn [hist_ok].
    destruct (restart st pol hint) as [sa| | |]; try discriminate Hr.
    destruct (IH _ _ _ _ Hok Hr) as (Ha & Hb). auto.
Qed.

(* ---------- the observations made on the log are those made on the specification ---------- *)

Lemma hrun_observations q : forall h st st' outs souts,
  hrun st h = Some (st', outs) ->
  map out_logical outs = map Some souts ->
  log_lasts q (hcalls_t h) outs = lasts q (map sop_of (hcalls h)) souts /\
  (log_never_deleted q (hcalls_t h) outs <-> never_deleted q (map sop_of (hcalls h)) souts).
Proof.
  induction h as [|[o t|pol hint] h IH]; intros st st' outs souts Hr Hl.
  - cbn [hrun] in Hr. injection Hr as <- <-. destruct souts; [|discriminate Hl].
    cbn. split; [reflexivity|tauto].
  - cbn [hrun] in Hr. destruct (step P st o t) as [st1 out] eqn:Es.
    destruct (hrun st1 h) as [[st2 outs2]|] eqn:Er; [|discriminate Hr]. injection Hr as <- <-.
    destruct souts as [|so souts]; [discriminate Hl|]. cbn [map] in Hl. inversion Hl as [[H1 H2]].
    destruct (IH _ _ _ _ Er H2) as (I1 & I2). cbn [hcalls_t hcalls map]. split.
    + unfold log_lasts, lasts in *. cbn [combine filter_map].
      rewrite (l_last_of_logical q o t out so H1), I1. reflexivity.
    + unfold log_never_deleted, never_deleted in *. cbn [combine forallb fst snd].
      rewrite (l_deleted_logical P q _ _ _ _ _ _ Es H1). rewrite !andb_true_iff, I2. tauto.
  - cbn [hrun] in Hr. destruct (restart st pol hint) as [st1| | |]; try discriminate Hr.
    cbn [hcalls_t hcalls]. exact (IH _ _ _ _ Hr Hl).
Qed.

(* ====================================================================== *)
(* 1. C04 across restarts                                                 *)
(* ====================================================================== *)

(* From any state satisfying the restart invariant: along a history of calls AND clean restarts
   that does not successfully delete q, q stays there if it was there, and the last positions
   reported by the successful appends to q are strictly increasing, all at or above the next
   position of q at the start and below its next position at the end (so that next position never
   decreases, restarts included).  The run is the specification's, and the final next /
   last position of q are the specification's. *)
Theorem positions_with_restarts h st G st' outs q :
  Inv st G -> hist_ok st h -> hrun st h = Some (st', outs) ->
  log_never_deleted q (hcalls_t h) outs ->
  (qs_get (s_qs st) q <> None -> qs_get (s_qs st') q <> None) /\
  incr_between (log_next st q) (log_next st' q) (log_lasts q (hcalls_t h) outs) /\
  exists m souts,
    s_run (abs_qs (s_qs st)) (map sop_of (hcalls h)) = (m, souts) /\
    map out_logical outs = map Some souts /\
    log_next st' q = next_or0 (s_get m q) /\
    log_last_position st' q = s_last_position m q.
Proof.
  intros HI Hok Hr Hnd.
  destruct (HF hrun_spec h st G HI Hok) as (st1 & outs1 & m & souts & Er & Erun & Hm & Hl).
  rewrite Hr in Er. injection Er as <- <-.
  destruct (hrun_observations q h st st' outs souts Hr Hl) as (O1 & O2). apply O2 in Hnd.
  pose proof (s_run_next_monotone (map sop_of (hcalls h)) (abs_qs (s_qs st)) q) as M.
  rewrite Erun in M. cbn [fst snd] in M. destruct (M Hnd) as (M1 & M2).
  rewrite (Hm q) in M1, M2. rewrite !log_next_abs, <- O1 in M2.
  split; [|split; [exact M2|]].
  - intros Hq. rewrite !abs_get in M1.
    destruct (qs_get (s_qs st) q); [|now destruct Hq].
    destruct (qs_get (s_qs st') q); [discriminate|]. exfalso. apply M1; [discriminate|reflexivity].
  - exists m, souts. split; [exact Erun|]. split; [exact Hl|]. split.
    + now rewrite <- log_next_abs, Hm.
    + rewrite log_last_position_refines. unfold s_last_position. now rewrite Hm.
Qed.

(* From a fresh directory.  (log_next st0 q = 0: nothing exists yet.) *)
Theorem positions_fresh_with_restarts pol0 st0 h st outs q :
  open P [] None pol0 [] = OpenOk st0 ->
  hist_ok st0 h ->
  hrun st0 h = Some (st, outs) ->
  log_never_deleted q (hcalls_t h) outs ->
  incr_between 0 (log_next st q) (log_lasts q (hcalls_t h) outs) /\
  StronglySorted N.lt (log_lasts q (hcalls_t h) outs) /\
  (forall l, In l (log_lasts q (hcalls_t h) outs) -> l < log_next st q) /\
  exists m souts,
    s_run [] (map sop_of (hcalls h)) = (m, souts) /\
    map out_logical outs = map Some souts /\
    log_next st q = next_or0 (s_get m q) /\
    log_last_position st q = s_last_position m q.
Proof.
  intros Hopen Hok Hr Hnd.
  pose proof (inv_fresh P HBS_lo HBS_hi HNB pol0 st0 Hopen) as HI0.
  destruct (positions_with_restarts h st0 gh_fresh st outs q HI0 Hok Hr Hnd) as (_ & Hinc & Hs).
  destruct (FileStream.open_fresh P HBS_lo HBS_hi HNB pol0) as (c & _ & Eo). rewrite Eo in Hopen.
  injection Hopen as <-. unfold log_next at 1 in Hinc. cbn [s_qs qs_get] in Hinc.
  cbn [s_qs abs_qs map] in Hs.
  split; [exact Hinc|]. split; [eapply incr_between_sorted; exact Hinc|]. split; [|exact Hs].
  intros l Hin. pose proof (incr_between_bounds _ _ _ _ Hinc Hin). lia.
Qed.

(* After a successful truncate(q, ..=p) anywhere in a history from a fresh directory, as long as q
   is not deleted every later append to q reports a position > p, whatever restarts happen in
   between — even if the truncate emptied q and every WAL file that held its records has been
   deleted: the next position stays >= p + 1. *)
Theorem after_truncate_with_restarts pol0 st0 h1 q p hint tick h2 st1 outs1 st e n outs2 :
  open P [] None pol0 [] = OpenOk st0 ->
  hist_ok st0 (h1 ++ HCall (OTruncate q p hint) tick :: h2) ->
  hrun st0 h1 = Some (st1, outs1) ->
  hrun st1 (HCall (OTruncate q p hint) tick :: h2) = Some (st, OutTruncate e n :: outs2) ->
  log_never_deleted q (hcalls_t h2) outs2 ->
  hrun st0 (h1 ++ HCall (OTruncate q p hint) tick :: h2) = Some (st, outs1 ++ OutTruncate e n :: outs2) /\
  incr_between (p + 1) (log_next st q) (log_lasts q (hcalls_t h2) outs2) /\
  (forall l, In l (log_lasts q (hcalls_t h2) outs2) -> p < l).
Proof.
  intros Hopen Hok Hr1 Hr2 Hnd.
  assert (Hinc : incr_between (p + 1) (log_next st q) (log_lasts q (hcalls_t h2) outs2)).
  { pose proof (inv_fresh P HBS_lo HBS_hi HNB pol0 st0 Hopen) as HI0.
    destruct (hist_ok_app _ _ _ _ _ Hok Hr1) as (Hok1 & Hok2).
    destruct (HF hrun_inv h1 st0 gh_fresh HI0 Hok1) as (sa & oa & G1 & Ea & HI1 & _).
    rewrite Hr1 in Ea. injection Ea as <- <-.
    destruct (hist_ok_app [HCall (OTruncate q p hint) tick] st1 h2
                (fst (step P st1 (OTruncate q p hint) tick))
                [snd (step P st1 (OTruncate q p hint) tick)] Hok2) as (Hok3 & Hok4).
    { cbn [hrun]. now destruct (step P st1 (OTruncate q p hint) tick). }
    destruct (HF hrun_inv [HCall (OTruncate q p hint) tick] st1 G1 HI1 Hok3)
      as (sb & ob & G2 & Eb & HI2 & _).
    cbn [hrun] in Hr2, Eb. destruct (step P st1 (OTruncate q p hint) tick) as [s2 out] eqn:Es.
    cbn [fst snd] in *. injection Eb as <- <-.
    destruct (hrun s2 h2) as [[s3 o3]|] eqn:Er2; [|discriminate Hr2].
    injection Hr2 as <- -> <-.
    destruct (log_truncate_next P st1 q p hint tick s2 e n (Inv_qs_inv P _ _ HI1) Es) as (_ & Hp & _).
    destruct (positions_with_restarts h2 s2 G2 s3 o3 q HI2 Hok4 Er2 Hnd) as (_ & Hinc & _).
    eapply incr_between_weaken; [exact Hinc|exact Hp]. }
  split; [now rewrite hrun_app, Hr1, Hr2|]. split; [exact Hinc|].
  intros l Hin. pose proof (incr_between_bounds _ _ _ _ Hinc Hin). lia.
Qed.

(* A clean restart never changes the next position of any queue — in particular it never lowers
   it — whether the queue holds records or was emptied (its WAL files possibly all deleted). *)
Theorem restart_keeps_next st G pol hint st' :
  Inv st G -> restart_bound st -> restart st pol hint = OpenOk st' ->
  (forall q, log_next st' q = log_next st q) /\
  (forall q, log_last_position st' q = log_last_position st q).
Proof.
  intros HI Hb Er. unfold RestartFinal.restart in Er.
  destruct (HF inv_reopen st G HI (restart_reopen_bound P HBS_lo HBS_hi HNB Hcrc st G HI Hb) pol hint)
    as (s1 & G1 & Eo & _ & Heq & _).
  rewrite Er in Eo. injection Eo as <-. split; intros q.
  - now rewrite <- !log_next_abs, Heq.
  - rewrite !log_last_position_refines. unfold s_last_position. now rewrite Heq.
Qed.

(* The next call after a restart answers as it would have without the restart: the same logical
   outcome, the same abstract content afterwards. *)
Theorem next_call_survives_restart pol0 st0 h st outs pol hint st' :
  open P [] None pol0 [] = OpenOk st0 ->
  hrun st0 h = Some (st, outs) ->
  hist_ok st0 h ->
  restart_bound st ->
  restart st pol hint = OpenOk st' ->
  forall o tick tick' s1 out s1' out' so,
    step P st o tick = (s1, out) -> step P st' o tick' = (s1', out') ->
    out_logical out = Some so -> is_io out' = false ->
    out_logical out' = Some so /\
    (forall q, s_get (abs_qs (s_qs s1')) q = s_get (abs_qs (s_qs s1)) q) /\
    (forall q, log_next s1' q = log_next s1 q).
Proof.
  intros Hopen Hr Hok Hb Er o tick tick' s1 out s1' out' so Es Es' Hl Hio.
  pose proof (inv_fresh P HBS_lo HBS_hi HNB pol0 st0 Hopen) as HI0.
  destruct (HF hrun_inv h st0 gh_fresh HI0 Hok) as (sa & oa & G & Ea & HI & _).
  rewrite Hr in Ea. injection Ea as <- <-.
  unfold RestartFinal.restart in Er.
  destruct (HF inv_reopen st G HI (restart_reopen_bound P HBS_lo HBS_hi HNB Hcrc st G HI Hb) pol hint)
    as (sb & G' & Eo & HI' & Heq & _).
  rewrite Er in Eo. injection Eo as <-.
  pose proof (step_refines P st o tick (Inv_qs_inv P _ _ HI)) as A. rewrite Es in A.
  destruct A as (_ & A). specialize (A so Hl).
  pose proof (step_refines P st' o tick' (Inv_qs_inv P _ _ HI')) as A'. rewrite Es' in A'.
  destruct A' as (_ & A').
  destruct (out_logical out') as [so'|] eqn:El'; [|destruct out'; discriminate].
  specialize (A' so' eq_refl).
  destruct (s_step_ext _ _ (sop_of o) Heq) as (X1 & X2). rewrite A, A' in X1, X2.
  cbn [fst snd] in X1, X2. subst so'.
  split; [reflexivity|]. split; [exact X2|]. intros q. now rewrite <- !log_next_abs, X2.
Qed.

(* "the next automatic append gets the same position": if append_records(q, None, pl) on the state
   reached reports the last position l, then after a clean restart the same call (not failing on
   I/O) reports the same l *)
Theorem next_position_survives_restart pol0 st0 h st outs pol hint st' :
  open P [] None pol0 [] = OpenOk st0 ->
  hrun st0 h = Some (st, outs) ->
  hist_ok st0 h ->
  restart_bound st ->
  restart st pol hint = OpenOk st' ->
  (forall q, log_last_position st' q = log_last_position st q) /\
  forall q pos pl tick tick' s1 l n s1' out',
    step P st (OAppend q pos pl) tick = (s1, OutAppend l n) ->
    step P st' (OAppend q pos pl) tick' = (s1', out') ->
    is_io out' = false ->
    exists n', out' = OutAppend l n'.
Proof.
  intros Hopen Hr Hok Hb Er. split.
  - destruct (HF C01_restart_identity pol0 st0 h st outs Hopen Hr Hok Hb pol hint)
      as (sb & Eb & _ & _ & Hlp & _).
    rewrite Er in Eb. injection Eb as <-. exact Hlp.
  - intros q pos pl tick tick' s1 l n s1' out' Es Es' Hio.
    destruct (next_call_survives_restart pol0 st0 h st outs pol hint st' Hopen Hr Hok Hb Er
                _ _ _ _ _ _ _ (SAppended l) Es Es' eq_refl Hio) as (Hl & _).
    destruct out'; cbn [out_logical] in Hl; try discriminate Hl.
    injection Hl as ->. eexists; reflexivity.
Qed.

(* ====================================================================== *)
(* 2. C18 across restarts                                                 *)
(* ====================================================================== *)

(* Run a history of calls and restarts from st1, and from st2 (holding the same content for q) the
   sub-history that keeps the restarts and only the calls addressed to q.  Both runs succeed, q
   holds the same content at the end (so the three reads agree on q), and the calls addressed to
   q returned the same logical outcomes. *)
Theorem projection_with_restarts_inv h q st1 G1 st2 G2 :
  Inv st1 G1 -> Inv st2 G2 ->
  s_get (abs_qs (s_qs st1)) q = s_get (abs_qs (s_qs st2)) q ->
  hist_ok st1 h -> hist_ok st2 (hproj q h) ->
  exists st1' outs1 st2' outs2 souts2,
    hrun st1 h = Some (st1', outs1) /\
    hrun st2 (hproj q h) = Some (st2', outs2) /\
    s_get (abs_qs (s_qs st1')) q = s_get (abs_qs (s_qs st2')) q /\
    (forall lo hi, log_range st1' q lo hi = log_range st2' q lo hi) /\
    log_last_position st1' q = log_last_position st2' q /\
    log_last_record st1' q = log_last_record st2' q /\
    map out_logical outs2 = map Some souts2 /\
    map out_logical (keep_outs (on_queue q) (hcalls_t h) outs1) = map Some souts2.
Proof.
  intros HI1 HI2 Hg Hok1 Hok2.
  destruct (HF hrun_inv h st1 G1 HI1 Hok1) as (st1' & outs1 & G1' & Er1 & HI1' & _ & _ & Hs1).
  destruct (HF hrun_inv (hproj q h) st2 G2 HI2 Hok2) as (st2' & outs2 & G2' & Er2 & HI2' & _ & _ & Hs2).
  destruct (Hs1 _ (fun q => eq_refl)) as (m1 & souts1 & R1 & Hm1 & L1).
  destruct (Hs2 _ (fun q => eq_refl)) as (m2 & souts2 & R2 & Hm2 & L2).
  rewrite hcalls_hproj in R2.
  destruct (s_run_projection (map sop_of (hcalls h)) _ _ q Hg) as (Pg & Po).
  rewrite R1, R2 in Pg, Po. cbn [fst snd] in Pg, Po. rewrite Hm1, Hm2 in Pg.
  exists st1', outs1, st2', outs2, souts2.
  split; [exact Er1|]. split; [exact Er2|]. split; [exact Pg|].
  destruct (reads_of_abs st1' st2' q (Inv_qs_inv P _ _ HI1') (Inv_qs_inv P _ _ HI2') Pg)
    as (Ra & Rb & Rc).
  split; [exact Ra|]. split; [exact Rb|]. split; [exact Rc|]. split; [exact L2|].
  rewrite keep_outs_map_out, L1, <- keep_outs_map_out. f_equal.
  rewrite <- Po, <- hcalls_t_sop. unfold on_queue.
  now rewrite (keep_outs_map_in (addressed q) (fun ot : op * bool => sop_of (fst ot))).
Qed.

(* both from the same fresh directory *)
Theorem projection_with_restarts pol0 st0 h q :
  open P [] None pol0 [] = OpenOk st0 ->
  hist_ok st0 h -> hist_ok st0 (hproj q h) ->
  exists st1 outs1 st2 outs2 souts2,
    hrun st0 h = Some (st1, outs1) /\
    hrun st0 (hproj q h) = Some (st2, outs2) /\
    s_get (abs_qs (s_qs st1)) q = s_get (abs_qs (s_qs st2)) q /\
    (forall lo hi, log_range st1 q lo hi = log_range st2 q lo hi) /\
    log_last_position st1 q = log_last_position st2 q /\
    log_last_record st1 q = log_last_record st2 q /\
    map out_logical outs2 = map Some souts2 /\
    map out_logical (keep_outs (on_queue q) (hcalls_t h) outs1) = map Some souts2.
Proof.
  intros Hopen Hok1 Hok2.
  pose proof (inv_fresh P HBS_lo HBS_hi HNB pol0 st0 Hopen) as HI0.
  exact (projection_with_restarts_inv h q st0 gh_fresh st0 gh_fresh HI0 HI0 eq_refl Hok1 Hok2).
Qed.

(* special case: a history in which no call is addressed to q (restarts anywhere) leaves q exactly
   as it was *)
Corollary others_and_restarts_invisible h q st G st' outs :
  Inv st G -> hist_ok st h -> hrun st h = Some (st', outs) ->
  (forall o, In o (hcalls h) -> sop_queue (sop_of o) <> Some q) ->
  s_get (abs_qs (s_qs st')) q = s_get (abs_qs (s_qs st)) q /\
  (forall lo hi, log_range st' q lo hi = log_range st q lo hi) /\
  log_last_position st' q = log_last_position st q /\
  log_last_record st' q = log_last_record st q.
Proof.
  intros HI Hok Hr Hall.
  destruct (HF hrun_inv h st G HI Hok) as (s1 & o1 & G' & Er & HI' & _ & _ & Hs).
  rewrite Hr in Er. injection Er as <- <-.
  destruct (Hs _ (fun q => eq_refl)) as (m & souts & R & Hm & _).
  assert (Hg : s_get (abs_qs (s_qs st')) q = s_get (abs_qs (s_qs st)) q).
  { rewrite <- Hm. replace m with (fst (s_run (abs_qs (s_qs st)) (map sop_of (hcalls h))))
      by now rewrite R.
    apply s_run_others_invisible. intros so Hin. apply in_map_iff in Hin as (o & <- & Hin).
    now apply Hall. }
  split; [exact Hg|].
  exact (reads_of_abs st' st q (Inv_qs_inv P _ _ HI') (Inv_qs_inv P _ _ HI) Hg).
Qed.

End Corollaries.

Print Assumptions positions_with_restarts.
Print Assumptions positions_fresh_with_restarts.
Print Assumptions after_truncate_with_restarts.
Print Assumptions restart_keeps_next.
Print Assumptions next_call_survives_restart.
Print Assumptions next_position_survives_restart.
Print Assumptions projection_with_restarts_inv.
Print Assumptions projection_with_restarts.
Print Assumptions others_and_restarts_invisible.

(* ====================================================================== *)
(* 3. non-vacuity: the theorems on the concrete history of RestartFinal.Example               *)
(* ====================================================================== *)
(* (BS = 32, two blocks per file; roll-overs, two GC passes, three restarts; queue a is truncated
   twice, queue b is created empty, survives three restarts through its position entry only, and
   receives its first record after the last restart.) *)
Module ExampleCorollaries.
Import ListNotations Example.

(* C04: no delete in h_ex; the appends to a report 1 < 2 < 5 < 6 across two restarts, the append
   to b reports 0; final next positions 7 and 1 *)
Example positions_ex :
  log_never_deleted qa (hcalls_t h_ex) outs_ex /\ log_never_deleted qb (hcalls_t h_ex) outs_ex /\
  log_lasts qa (hcalls_t h_ex) outs_ex = [1; 2; 5; 6] /\ log_next st_ex qa = 7 /\
  log_lasts qb (hcalls_t h_ex) outs_ex = [0] /\ log_next st_ex qb = 1.
Proof. vm_compute. repeat split; reflexivity. Qed.

Example positions_fresh_ex :
  incr_between 0 (log_next st_ex qa) (log_lasts qa (hcalls_t h_ex) outs_ex).
Proof.
  exact (proj1 (positions_fresh_with_restarts Px Px_BS_lo Px_BS_hi Px_NB Px_crc eq_refl eq_refl
                  PNothing st0 h_ex st_ex outs_ex qa open_st0 hist_ok_ex hrun_ex
                  (proj1 positions_ex))).
Qed.

(* C18: the sub-history of b (create b, three restarts, append to b) *)
Example hproj_qb_ex :
  hproj qb h_ex =
  [HCall (OCreate qb) false; HRestart (PDelay true) []; HRestart PNothing [qb];
   HRestart PNothing [qb]; HCall (OAppend qb None [pay "w"%byte]) true].
Proof. vm_compute. reflexivity. Qed.

Lemma hist_ok_proj_qb : hist_ok Px st0 (hproj qb h_ex).
Proof.
  rewrite hproj_qb_ex.
  call_tac. restart_tac qb 0. restart_tac qb 0. restart_tac qb 0. call_tac.
  exact I.
Qed.

Example projection_ex :
  exists st1 outs1 st2 outs2 souts2,
    hrun Px st0 h_ex = Some (st1, outs1) /\
    hrun Px st0 (hproj qb h_ex) = Some (st2, outs2) /\
    s_get (abs_qs (s_qs st1)) qb = s_get (abs_qs (s_qs st2)) qb /\
    (forall lo hi, log_range st1 qb lo hi = log_range st2 qb lo hi) /\
    log_last_position st1 qb = log_last_position st2 qb /\
    log_last_record st1 qb = log_last_record st2 qb /\
    map out_logical outs2 = map Some souts2 /\
    map out_logical (keep_outs (on_queue qb) (hcalls_t h_ex) outs1) = map Some souts2.
Proof.
  exact (projection_with_restarts Px Px_BS_lo Px_BS_hi Px_NB Px_crc eq_refl eq_refl
           PNothing st0 h_ex qb open_st0 hist_ok_ex hist_ok_proj_qb).
Qed.

(* ... and by direct computation *)
Example projection_ex_computed :
  match hrun Px st0 (hproj qb h_ex) with
  | Some (st2, outs2) =>
      s_get (abs_qs (s_qs st2)) qb = s_get (abs_qs (s_qs st_ex)) qb /\
      map out_logical outs2 = [Some SOk; Some (SAppended (Some 0))] /\
      map out_logical (keep_outs (on_queue qb) (hcalls_t h_ex) outs_ex) =
        [Some SOk; Some (SAppended (Some 0))]
  | None => False
  end.
Proof. vm_compute. repeat split; reflexivity. Qed.
End ExampleCorollaries.

Print Assumptions ExampleCorollaries.positions_fresh_ex.
Print Assumptions ExampleCorollaries.projection_ex.
