(* JRecover3.v — TASK T14, stage 3: the recovery theorem JRecover2.crashJ_recover_invJ for a
   VIRTUAL CALL: any transition st -> st' whose effects on the files are described by a
   CrashTrace.call_trace of the bytes encs_of c0 (ser X) (X the entries it logs), that preserves
   the junk-tolerant invariant, and whose entries are "atomic" at the logical level.
   Instances: the API calls (JRecover2), and the garbage collection run by `open` itself
   (recovery of a crash during the recovery: JRecoverGc.v). *)
From Coq Require Import Lia ZArith ZifyN ZifyNat ZifyBool List Sorted.
From MRL Require Import Bytes BytesProofs Params Names NamesProofs Frame Record Mem Spec Rolling Log
  Driver Hist NoopProofs SpecRefine RecordProofs StreamProofs PolicyProofs GcProofs GhostLog ReplaySpec
  HandleProofs FileStream ResyncProofs QueueIso RestartInv RestartWrite RestartGc RestartStep
  OpenReplay RestartFinal TornProofs TornFile CrashTrace CrashAtomic
  JInv JGc JStep JunkStream JReopen JRecoverL JRecoverS JRecoverP JRecover JRecoverS2 JRecoverL2
  JCrashShape JRecover2 JRecoverP2 JRecoverPk KWalk KJunk KReach JRecoverS4 KAlign KGap JRecoverS5.

Arguments N.add : simpl never.
Arguments N.sub : simpl never.
Arguments N.mul : simpl never.
Arguments N.eqb : simpl never.
Arguments N.ltb : simpl never.
Arguments N.leb : simpl never.
Arguments N.div : simpl never.
Arguments N.modulo : simpl never.
Arguments N.min : simpl never.
Arguments N.max : simpl never.
Arguments N.pow : simpl never.

(* keeps a hypothesis out of the sight of lia until it is needed *)
Definition hide5 (A : Prop) : Prop := A.

(* the arithmetic of the crash-point premise, outside the big context *)
Lemma fit_conv base f0 hi FB woff j B c0 L :
  base <= f0 -> f0 <= hi -> c0 = (f0 - base) * FB + woff -> L = (hi + 1 - base) * FB ->
  f0 * FB + woff + j + B <= (hi + 1) * FB -> c0 + j + B <= L.
Proof.
  intros H1 H2 -> -> H.
  assert (Eq1 : (f0 - base) * FB + base * FB = f0 * FB) by (rewrite <- N.mul_add_distr_r; f_equal; lia).
  assert (Eq2 : (hi + 1 - base) * FB + base * FB = (hi + 1) * FB) by (rewrite <- N.mul_add_distr_r; f_equal; lia).
  lia.
Qed.

Lemma exact_conv base f0 hi FB woff j c0 L :
  base <= f0 -> f0 <= hi -> c0 = (f0 - base) * FB + woff -> L = (hi + 1 - base) * FB ->
  f0 * FB + woff + j = (hi + 1) * FB -> c0 + j = L.
Proof.
  intros H1 H2 -> -> H.
  assert (Eq1 : (f0 - base) * FB + base * FB = f0 * FB) by (rewrite <- N.mul_add_distr_r; f_equal; lia).
  assert (Eq2 : (hi + 1 - base) * FB + base * FB = (hi + 1) * FB) by (rewrite <- N.mul_add_distr_r; f_equal; lia).
  lia.
Qed.

Lemma room_conv base f0 hi FB x L :
  f0 <= hi -> L = (hi + 1 - base) * FB -> x <= (f0 + 1 - base) * FB -> x <= L.
Proof.
  intros H1 -> H.
  assert ((f0 + 1 - base) * FB <= (hi + 1 - base) * FB) by (apply N.mul_le_mono_r; lia). lia.
Qed.

Lemma reach_conv base f0 hi FB woff j c0 :
  base <= f0 -> f0 <= hi -> c0 = (f0 - base) * FB + woff -> (hi - f0) * FB <= woff + j ->
  (hi - base) * FB <= c0 + j.
Proof.
  intros H1 H2 -> H. replace (hi - base) with ((f0 - base) + (hi - f0)) by lia.
  rewrite N.mul_add_distr_r. lia.
Qed.

Section Recover3.
Variable P : params.
Hypothesis HBS_lo : 7 < BS P.
Hypothesis HBS_hi : BS P <= 65542.
Hypothesis HNB : 1 <= NB P.
Hypothesis Hcrc : forall t p, crcf P t p < 2 ^ 32.
Hypothesis HGC : L_GC P = false.
Hypothesis HIO : L_IO P = false.
Hypothesis HSHORT : L_SHORT P = false.
Hypothesis Hnc : no_zero_collision P.

Local Notation B := (BS P).
Local Notation FB := (FILE_BYTES P).
Local Notation ffp := (first_frame_pos P).
Local Notation enc_of := (enc_of P).
Local Notation encs_of := (encs_of P).
Local Notation cursor_after := (cursor_after P).
Local Notation starts := (starts P).
Local Notation ser := (map entry_ser).
Local Notation H3 f := (f P HBS_lo HBS_hi Hcrc) (only parsing).
Local Notation H2 f := (f P HBS_lo HBS_hi) (only parsing).
Local Notation HW f := (f P HBS_lo HBS_hi HNB Hcrc) (only parsing).
Local Notation HN f := (f P HBS_lo HBS_hi HNB) (only parsing).
Local Notation HG f := (f P HBS_lo HBS_hi HNB Hcrc HGC) (only parsing).

Variable PRE0 : bytes.
Variable OLD0 : list entry.
Variable opos0 : list (N * N).
Variable adm0 : N -> Prop.
Variable cmax0 : nat.
Variable rm0 : N.
Hypothesis Hpre0 : pre_ok PRE0 OLD0 opos0.
Hypothesis Hpc0 : pre_cont P PRE0 (ser OLD0) opos0 adm0 cmax0 rm0.
Hypothesis Hrm0 : rm0 <= 7.
Hypothesis Hadm0 : forall m, adm0 (m * NB P).

Local Notation InvJ0 := (InvJ P PRE0 OLD0 opos0).
Local Notation PInvJ0 := (PInvJ P PRE0 OLD0 opos0).
Local Notation jT0 := (jT P PRE0 OLD0).
Local Notation jpos0 := (jpos P PRE0 OLD0 opos0).
Local Notation jNEW0 := (jNEW OLD0).
Local Notation jser0 := (jser OLD0).
Local Notation crash_boundJ := (crash_boundJ P PRE0 OLD0).
Local Notation top_of img hi :=
  (hi <= U64_MAX /\ (exists b, fs_get img (filename hi) = Some (FFile b)) /\
   forall x, hi < x -> x <= U64_MAX -> fs_get img (filename x) = None) (only parsing).

(* the shape of a crash image from the trace of a (virtual) call: the generic second half of
   JCrashShape.crashJ_image_shape *)
Lemma image_shape_of_trace w G (NEW : bytes) f1 off1 evs pe :
  PInvJ0 w G -> w_pending w = [] ->
  call_trace P (wlo w) (w_file w) (w_off w) NEW f1 off1 evs -> f1 <= U64_MAX -> cpre pe evs ->
  let fs0 := c_fs (w_ctx w) in
  let lo := wlo w in
  let T := jT0 G in
  let c0 := (wlo w - gh_base G) * FB + wpos P w in
  let img := fold_left apply_event pe fs0 in
  let j := lenN (ev_data pe) in
  exists (nu : nat) (hi : N) (short : bool) (z : N),
    let lo' := lo + N.of_nat nu in
    lo' <= hi /\ w_file w <= hi /\ hi <= f1 /\ hi <= U64_MAX /\
    nodup_keys img /\ dir_of img (nfiles lo' hi) /\ list_wal_numbers img = nfiles lo' hi /\
    (forall n, lo' <= n <= hi ->
       exists b, fs_get img (filename n) = Some (FFile b) /\
                 lenN b = if short && (n =? hi) then 0 else FB) /\
    (short = true -> w_file w < hi /\ nu = 0%nat) /\
    ev_data pe = takeN j NEW /\ j <= lenN NEW /\
    stream_of (zext P img hi) (nfiles lo' hi) =
      dropN ((lo' - gh_base G) * FB)
            (T ++ zerosN (c0 - lenN T) ++ takeN j NEW ++ zerosN z) /\
    c0 + j + z = (hi + 1 - gh_base G) * FB /\
    (nu <> 0%nat -> j = lenN NEW).
Proof.
  clear Hpc0 Hrm0 Hadm0 HIO HSHORT Hnc. clear adm0 cmax0 rm0.
  intros HP Hp0 Hct Hu' Hc. cbn zeta.
  destruct (pinvJ_setup P HBS_lo HBS_hi HNB Hcrc PRE0 OLD0 opos0 w G HP)
    as (Hlb & Ebuf & HS & Hposn & Hn & Hn1). cbn zeta in *.
  pose proof HP as (Hw & (_ & Hdir) & Hnd & Hbase & Hc1 & Hc2 & _). cbn zeta in Hc1, Hc2.
  pose proof Hw as (Hok & Hwf' & Hoff & Hplan & Hu & Hfull & Hfresh).
  rewrite (vfs_nil w Hp0) in Hfull, Hfresh.
  set (fs0 := c_fs (w_ctx w)) in *. set (lo := wlo w) in *. set (f0 := w_file w) in *.
  assert (Hlo : lo <= f0) by lia.
  assert (Efiles : w_files w = nfiles lo f0).
  { rewrite (HN wr_ok_iota w Hok). fold lo. unfold nfiles. f_equal.
    rewrite lenN_length in Hn. lia. }
  assert (Hfull0 : forall n, lo <= n <= f0 -> full_file P fs0 n).
  { intros n Hn'. apply Hfull. rewrite Efiles. apply (HN nfiles_In); lia. }
  assert (Hgood : good P fs0 f0 U64_MAX).
  { split; [apply Hfull0; lia|]. intros n H1 H2'. now apply Hfresh. }
  assert (Hdir0 : dir_of fs0 (nfiles lo f0)).
  { rewrite <- Efiles. apply Hdir. exact Hu. }
  assert (ES0 : stream_of fs0 (nfiles lo f0) = wstream w).
  { unfold wstream. now rewrite (vfs_nil w Hp0), Efiles. }
  assert (Epos : (f0 - lo) * FB + w_off w = wpos P w).
  { unfold wpos. f_equal. f_equal. lia. }
  destruct (cpre_data_take _ _ Hc) as (Hdata & Hj).
  rewrite (call_trace_data _ _ _ _ _ _ _ _ Hct) in Hdata, Hj.
  destruct (HW call_trace_img _ _ _ _ _ _ _ Hct pe fs0 U64_MAX Hc Hgood Hlo Hu' (N.le_refl _))
    as (imgW & fc & short & mu & Hok' & Hfc & Hmu & Hfold & Hfullj).
  pose proof (HW img_ok_len _ _ _ _ _ _ _ Hok' (Hfull0 f0 ltac:(lia)) Hoff ltac:(lia)) as Hlen.
  destruct (HW assemble fs0 lo f0 (w_off w) imgW (ev_data pe) fc short mu Hlo ltac:(lia) Hfull0 Hdir0
              Hok' Hmu) as (Hdir' & Hlen' & Hstr').
  pose proof Hok' as (Hle' & _ & _ & Hshort' & _).
  set (j := lenN (ev_data pe)) in *.
  exists mu, fc, short,
    (lenN (w_files w) * FB + (fc - f0) * FB - wpos P w - j).
  rewrite Hfold.
  assert (Hndi : nodup_keys (remove_files imgW (iota lo mu))).
  { rewrite <- Hfold. apply fold_nodup. exact Hnd. }
  split; [exact Hmu|]. split; [exact Hle'|]. split; [exact Hfc|]. split; [lia|].
  split; [exact Hndi|].
  split; [exact Hdir'|]. split; [apply (HN dir_listing); [exact Hndi|exact Hdir'|exact Hmu|lia]|].
  split; [exact Hlen'|].
  split.
  { intros Hs. split; [now apply Hshort'|].
    destruct mu as [|mu']; [reflexivity|].
    destruct (Hfullj ltac:(discriminate)) as (_ & E). congruence. }
  split; [exact Hdata|]. split; [exact Hj|].
  assert (Hbound' : wpos P w + j <= lenN (w_files w) * FB + (fc - f0) * FB).
  { rewrite <- Epos. replace (lenN (w_files w)) with (f0 - lo + 1) by lia. lia. }
  split.
  { rewrite Hstr', ES0, Epos, HS. rewrite <- Hdata.
    replace (lo + N.of_nat mu - gh_base G) with ((lo - gh_base G) + N.of_nat mu) by lia.
    rewrite N.mul_add_distr_r.
    apply (HW stream_to_ghost); try assumption; try reflexivity. }
  split.
  { replace (fc + 1 - gh_base G) with ((lo - gh_base G) + lenN (w_files w) + (fc - f0)) by lia.
    lia. }
  intros Hnu. destruct (Hfullj Hnu) as (E & _). unfold j. now rewrite E.
Qed.

(* the recovery of a crash image of a virtual call st -> st' logging the entries X: THE general
   statement (the proof is done once; recover_vcall_setup below, JRecover4.recover_vcall_setup_at,
   JRecover5.recover_vcall_setup_at2 and JRecover6.recover_vcall_setup_at3 are corollaries).
   top_of img hi is JRecover5.is_top img hi, unfolded. *)
Theorem recover_vcall_setup_gen st G (X : list entry) st' G' evs :
  InvJ0 st G -> w_pending (s_wr st) = [] ->
  InvJ0 st' G' -> gh_base G' = gh_base G -> gh_ALL G' = gh_ALL G ++ X ->
  w_pending (s_wr st') = [] -> Forall wf_entry X ->
  call_trace P (wlo (s_wr st)) (w_file (s_wr st)) (w_off (s_wr st))
             (encs_of (call_cursor P st G) (ser X)) (w_file (s_wr st')) (w_off (s_wr st')) evs ->
  c_fs (w_ctx (s_wr st')) = fold_left apply_event evs (c_fs (w_ctx (s_wr st))) ->
  (* logical atomicity of every prefix of X *)
  (forall Xd Xr, X = Xd ++ Xr ->
     exists Gd qsd,
       LInv qsd (wlo (s_wr st)) Gd /\ gh_base Gd = gh_base G /\ gh_before Gd = gh_before G /\
       map snd (gh_E Gd) = map snd (gh_E G) ++ Xd /\
       (Xd = [] -> forall q, s_get (abs_qs qsd) q = s_get (abs_qs (s_qs st)) q) /\
       (Xd <> [] -> forall q, s_get (abs_qs qsd) q = s_get (abs_qs (s_qs st')) q)) ->
  (X = [] -> forall q, s_get (abs_qs (s_qs st')) q = s_get (abs_qs (s_qs st)) q) ->
  crash_boundJ G X (abs_qs (s_qs st)) ->
  crash_boundJ G X (abs_qs (s_qs st')) ->
  forall pe, cpre pe evs ->
      ((lenN (ev_data pe) = lenN (encs_of (call_cursor P st G) (ser X)) /\
        lenN PRE0 + rm0 <= (w_file (s_wr st) + 1 - gh_base G) * FB) \/
       forall hi, top_of (fold_left apply_event pe (c_fs (w_ctx (s_wr st)))) hi -> w_file (s_wr st) <= hi ->
         w_file (s_wr st) * FB + w_off (s_wr st) + lenN (ev_data pe) + B <= (hi + 1) * FB \/
         (w_file (s_wr st) * FB + w_off (s_wr st) + lenN (ev_data pe) = (hi + 1) * FB /\
          lenN PRE0 + rm0 <= (w_file (s_wr st) + 1 - gh_base G) * FB)) ->
      let img := fold_left apply_event pe (c_fs (w_ctx (s_wr st))) in
      exists PRE OLD opos adm cmax rm lo' n zz qs_log lo_log Glog,
        pre_ok PRE OLD opos /\ pre_cont P PRE (ser OLD) opos adm cmax rm /\ rm <= 7 /\
        (forall m, adm (m * NB P)) /\
        rc_hyps P PRE OLD opos adm rm img lo' n (gh_base G) zz qs_log lo_log Glog /\
        top_of img (lo' + N.of_nat n) /\ w_file (s_wr st) <= lo' + N.of_nat n /\
        lo' + N.of_nat n <= w_file (s_wr st') /\
        ((forall q, s_get (abs_qs qs_log) q = s_get (abs_qs (s_qs st)) q) \/
         (forall q, s_get (abs_qs qs_log) q = s_get (abs_qs (s_qs st')) q)).
Proof.
  intros HI Hp0 HI' Eb EALL' Hp0' HwfX Hct Hfs Hprefix Hnilabs Hcb Hcb'
         pe Hcpre Hfitpe. cbn zeta.
  revert Hfitpe.
  pose proof HI' as (HP'0 & _).
  destruct (InvJ_winv P PRE0 OLD0 opos0 st' G' HI') as ((_ & _ & _ & _ & Hu'0 & _) & _ & _).
  destruct (image_shape_of_trace (s_wr st) G _ _ _ evs pe (proj1 HI) Hp0 Hct Hu'0 Hcpre)
    as (nu & hi & short & z & Hlohi & Hf0hi & Hhif1 & Hhimax & Hndk & Hdir &
        Hlist & Hlens & Hshort & Hdata & Hj & Hstream & Hlen & Hnuj).
  cbn zeta in *.
  pose proof HI as (HP & HL).
  pose proof HI' as (HP' & HL').
  set (img := fold_left apply_event pe (c_fs (w_ctx (s_wr st)))) in *.
  set (j := lenN (ev_data pe)) in *.
  set (w := s_wr st) in *. set (lo := wlo w) in *. set (lo' := lo + N.of_nat nu) in *.
  set (base := gh_base G) in *. set (T := jT0 G) in *.
  change ((wlo (s_wr st) - gh_base G) * FB + wpos P (s_wr st)) with (call_cursor P st G) in *.
  set (c0 := call_cursor P st G) in *.
  set (NEW := encs_of c0 (ser X)) in *.
  destruct (pinvJ_setup P HBS_lo HBS_hi HNB Hcrc PRE0 OLD0 opos0 w G HP)
    as (Hlb & Ebuf & HS & Hposn & Hn & Hn1). cbn zeta in *.
  pose proof HP as (Hw & (_ & Hdir0) & Hnd0 & Hbase & Hc1 & Hc2 & _ & HWf & _). cbn zeta in Hc1, Hc2.
  pose proof Hw as (Hok & Hwf' & Hoff & Hplan & Hu & Hfull & Hfresh).
  rewrite (vfs_nil w Hp0) in Hfull, Hfresh.
  set (fs0 := c_fs (w_ctx w)) in *. set (f0 := w_file w) in *.
  fold base in Hbase. fold lo in Hbase, Hn.
  assert (Hlo : lo <= f0) by lia.
  assert (Efiles : w_files w = nfiles lo f0).
  { rewrite (HN wr_ok_iota w Hok). fold lo. unfold nfiles. f_equal.
    rewrite lenN_length in Hn. lia. }
  assert (Hfull0 : forall n, lo <= n <= f0 -> full_file P fs0 n).
  { intros n Hn'. apply Hfull. rewrite Efiles. apply (HN nfiles_In); lia. }
  assert (Hgood : good P fs0 f0 U64_MAX).
  { split; [apply Hfull0; lia|]. intros n H1 H2'. now apply Hfresh. }
  pose proof HP' as (Hw' & (_ & Hdir0') & _ & Hbase' & Hc1' & Hc2' & _ & HWf' & _).
  cbn zeta in Hc1', Hc2'. rewrite Eb in Hbase', Hc1', Hc2'.
  pose proof Hw' as (Hok' & _ & Hoff' & _ & Hu' & Hfull' & _).
  rewrite (vfs_nil _ Hp0') in Hfull'.
  set (w' := s_wr st') in *. set (f1 := w_file w') in *.
  destruct (wr_ok_len P (HB0c P HBS_lo HBS_hi HNB) HNB w' Hok') as (Hn' & Hn1').
  (* the image has a top file; its unlinked files are among those of the call *)
  destruct (crash_unlinks P HBS_lo HBS_hi HNB Hcrc lo f0 (w_off w) NEW f1 (w_off w') evs pe fs0 Hct
              Hcpre Hgood Hfull0 Hlo Hu')
    as (m & mu & Hmu & Hmuf1 & Hgone & Hbelow & Hex & fc & Hfc & (Htopf & Htopn)).
  fold img in Hex, Htopf, Htopn.
  assert (Hlo'mu : lo' <= lo + N.of_nat mu).
  { apply (Hdir (lo + N.of_nat mu) ltac:(lia)) in Hex. apply (HN nfiles_In) in Hex; lia. }
  assert (Hlo'x : lo' <= wlo w').
  { assert (Hin : In (wlo w') (w_files w')).
    { apply (HN RestartGc.wr_ok_In); [exact Hok'|lia]. }
    destruct (Hfull' _ Hin) as (b & Hb & _). rewrite Hfs in Hb.
    destruct (N.lt_ge_cases (wlo w') lo) as [Hlt|Hge].
    - rewrite (Hbelow _ Hlt) in Hb.
      assert (Hin0 : In (wlo w') (w_files w)).
      { apply (Hdir0 Hu (wlo w') ltac:(lia)). now exists b. }
      rewrite Efiles in Hin0. apply (HN nfiles_In) in Hin0; lia.
    - destruct (N.lt_ge_cases (wlo w') (lo + N.of_nat m)) as [Hlt|Hge2]; [|lia].
      rewrite (Hgone (wlo w') ltac:(lia)) in Hb. discriminate. }
  assert (Htop : forall x, hi < x -> x <= U64_MAX -> fs_get img (filename x) = None).
  { assert (E : fc = hi).
    { apply (Hdir fc ltac:(lia)) in Htopf. apply (HN nfiles_In) in Htopf; [|lia].
      destruct (N.lt_ge_cases fc hi) as [Hlt|]; [|lia].
      destruct (Hlens hi ltac:(lia)) as (b & Hb & _).
      rewrite (Htopn hi Hlt Hhimax) in Hb. discriminate. }
    subst fc. exact Htopn. }
  clear Hex Htopf Htopn Hgone Hbelow Hfc.
  (* the data written by the prefix reach the start of the top file *)
  assert (Hreach : (hi - f0) * FB <= w_off w + j).
  { destruct (N.eq_dec hi f0) as [E|Hne]; [rewrite E, N.sub_diag; lia|].
    destruct (Hlens hi ltac:(lia)) as (bb & Hbb & _). fold img in Hbb.
    destruct (call_trace_reach P _ _ _ _ _ _ _ Hct pe Hcpre fs0 (filename hi)) as (nn & En & H1 & H2' & H3').
    { apply Hfresh; lia. }
    { fold img. rewrite Hbb. discriminate. }
    assert (nn = hi) by (symmetry; apply filename_inj; [lia|lia|exact En]). subst nn. exact H3'. }
  assert (Htophi : top_of img hi).
  { split; [exact Hhimax|]. split; [|exact Htop].
    destruct (Hlens hi ltac:(lia)) as (bb & Hbb & _). exists bb. exact Hbb. }
  set (n := N.to_nat (hi - lo')).
  assert (Ecur : lo' + N.of_nat n = hi) by (unfold n; clear - Hlohi; lia).
  assert (Hlistx : list_wal_numbers img = iota lo' (S n)) by exact Hlist.
  assert (Hfilesx : forall f, In f (iota lo' (S n)) ->
            exists b, fs_get img (filename f) = Some (FFile b) /\ lenN b <= FB /\
                      (f <> lo' + N.of_nat n -> lenN b = FB)).
  { intros f Hf. apply iota_In in Hf. destruct (Hlens f ltac:(lia)) as (b & Hb & Hlb').
    exists b. split; [exact Hb|]. rewrite Ecur.
    destruct (N.eqb_spec f hi) as [->|Hne]; destruct short; cbn [andb] in Hlb'; split;
      (clear - Hlb' Hne || clear - Hlb'); lia. }
  assert (Eext : fs_ext P img lo' n = zext P img hi).
  { unfold fs_ext. rewrite Ecur. reflexivity. }
  assert (Hbase'' : base <= lo') by (clear - Hbase; lia).
  assert (Ec0 : c0 = (lo - base) * FB + wpos P w) by reflexivity.
  assert (ENEW : NEW = encs_of c0 (ser X)) by reflexivity.
  set (a0 := lenN PRE0) in *.
  assert (ET : T = PRE0 ++ encs_of a0 (jser0 G)) by reflexivity.
  pose proof (jALL_split P PRE0 OLD0 opos0 w G HP) as HALLs.
  pose proof (jlen_le P HBS_lo HBS_hi HNB Hcrc PRE0 OLD0 opos0 w G HP) as Hjlen.
  assert (Hc1c : lenN T <= c0) by exact Hc1.
  assert (Hc2c : c0 <= ffp (lenN T)) by exact Hc2.
  assert (HFBpos : 0 < FB) by (apply (FBc_pos P HBS_lo HBS_hi HNB)).
  (* the cursor lies in file f0; the whole call fits before the last block *)
  assert (Ec0f : c0 = (f0 - base) * FB + w_off w).
  { rewrite Ec0. unfold wpos.
    replace (lenN (w_files w) - 1) with (f0 - lo) by (clear - Hn; lia).
    replace (f0 - base) with ((lo - base) + (f0 - lo)) by (clear - Hbase Hlo; lia). clear - Hlo. lia. }
  pose proof (HW call_trace_pos _ _ _ _ _ _ _ Hct Hoff) as Hctp.
  assert (Hbf0 : hide5 (base <= f0)) by (unfold hide5; clear - Hbase Hlo; lia).
  assert (Hreach' : (hi - base) * FB <= c0 + j)
    by exact (reach_conv base f0 hi FB (w_off w) j c0 Hbf0 Hf0hi Ec0f Hreach).
  set (S_all := T ++ zerosN (c0 - lenN T) ++ takeN j NEW ++ zerosN z) in *.
  assert (HlenS : lenN S_all = (hi - base + 1) * FB).
  { unfold S_all. rewrite !lenN_app, !lenN_zerosN, lenN_takeN.
    replace (hi - base + 1) with (hi + 1 - base) by (clear - Hbase'' Hlohi; lia).
    clear - Hc1c Hj Hlen Ec0. lia. }
  assert (HokS : stream_ok P S_all).
  { exists ((hi - base + 1) * NB P). rewrite HlenS. unfold FILE_BYTES. lia. }
  rewrite ENEW in Hj.
  assert (HlT0 : lenN T = a0 + lenN (encs_of a0 (jser0 G))) by (rewrite ET, lenN_app; reflexivity).
  assert (Ehb : hi - base + 1 = hi + 1 - base) by (clear - Hbase'' Hlohi; lia).
  assert (ElS : lenN S_all = (hi + 1 - base) * FB)
    by exact (eq_trans HlenS (f_equal (fun x => x * FB) Ehb)).
  assert (HSeq : S_all = T ++ zerosN (c0 - lenN T) ++ takeN j (encs_of c0 (ser X)) ++ zerosN z)
    by (unfold S_all; rewrite ENEW; reflexivity).
  intros Hfitpe.
  assert (Hstr : exists xs_d xs_r PRE cmax rm zz,
    ser X = xs_d ++ xs_r /\
    pre_cont P PRE (ser OLD0 ++ jser0 G ++ xs_d) (opos0 ++ starts (lenN PRE0) (jser0 G ++ xs_d)) adm0 cmax rm /\
    S_all = PRE ++ zerosN zz /\ lenN PRE + rm <= lenN S_all /\
    (cmax <= Datatypes.S cmax0)%nat /\ rm <= 7 /\
    (forall m, m * B <= c0 + j -> m * B <= ffp (lenN PRE)) /\
    lenN (PRE0 ++ encs_of (lenN PRE0) (jser0 G)) <= lenN PRE /\ c0 <= ffp (lenN PRE) /\
    lenN PRE0 + lenN (encs_of (lenN PRE0) (jser0 G ++ xs_d)) <= lenN PRE /\
    lenN PRE <= lenN PRE0 + lenN (encs_of (lenN PRE0) (jser0 G ++ ser X)) + B /\
    (xs_r <> [] -> j < lenN (encs_of c0 (ser X)))).
  { destruct Hfitpe as [(E & HR)|Hf].
    - exact (crash_stream_preN P HBS_lo HBS_hi Hcrc PRE0 (ser OLD0) opos0 adm0 cmax0 rm0 (jser0 G)
               c0 (ser X) j z S_all Hpc0 Hrm0 Hc1c Hc2c Hj HSeq HokS E
               (room_conv base f0 hi FB _ _ Hf0hi ElS HR)).
    - destruct (Hf hi Htophi Hf0hi) as [Hfit|(Hex & HR)].
      + exact (crash_stream_preK2 P HBS_lo HBS_hi Hcrc Hnc PRE0 (ser OLD0) opos0 adm0 cmax0 rm0 (jser0 G)
                 c0 (ser X) j z S_all Hpc0 Hrm0 Hc1c Hc2c Hj HSeq HokS
                 (fit_conv base f0 hi FB (w_off w) j B c0 _ Hbf0 Hf0hi Ec0f ElS Hfit)).
      + exact (crash_stream_preG P HBS_lo HBS_hi Hcrc PRE0 (ser OLD0) opos0 adm0 cmax0 rm0 (jser0 G)
                 c0 (ser X) j z S_all Hpc0 Hrm0 Hc1c Hc2c Hj HSeq HokS
                 (exact_conv base f0 hi FB (w_off w) j c0 _ Hbf0 Hf0hi Ec0f ElS Hex)
                 (room_conv base f0 hi FB _ _ Hf0hi ElS HR)). }
  clear Hfitpe Ehb ElS HSeq.
  destruct Hstr
    as (xs_d & xs_r & PRE & cmax & rm & zz & Hxs & Hpc & HSp & Hroom & Hcm & Hrm7 & Hblk2 &
        HTP & Hc0P & HoldP & HPT' & Hfullj).
  change (lenN (PRE0 ++ encs_of (lenN PRE0) (jser0 G))) with (lenN T) in HTP.
  set (adm := adm0).
  fold a0 in Hpc, HoldP, HPT'.
  destruct (map_app_inv entry_ser X _ _ Hxs) as (Xd & Xr & HX & HXd & HXr).
  set (OLD := gh_ALL G ++ Xd).
  set (opos := opos0 ++ starts a0 (jser0 G ++ xs_d)).
  assert (EserO : ser OLD = ser OLD0 ++ jser0 G ++ xs_d).
  { unfold OLD. rewrite HALLs at 1. rewrite !map_app, HXd, <- app_assoc. reflexivity. }
  pose proof Hpre0 as (Hl0 & Hb0 & Hs0).
  assert (Hpre : pre_ok PRE OLD opos).
  { split.
    { unfold opos. rewrite app_length, (ResyncProofs.starts_length P), Hl0.
      rewrite <- (map_length entry_ser OLD), EserO, !app_length, map_length. reflexivity. }
    pose proof (H3 starts_bounds (jser0 G ++ xs_d) a0) as Hsb.
    split.
    { unfold opos. apply Forall_app. split.
      - eapply Forall_impl; [|exact Hb0]. cbn beta. fold a0. intros s Hs.
        assert (HTP' : lenN T <= lenN PRE) by exact HTP. rewrite HlT0 in HTP'. clear - Hs HTP'. lia.
      - eapply Forall_impl; [|exact Hsb]. cbn beta. intros s (_ & _ & Hs).
        unfold ResyncProofs.cursor_after in Hs. clear - Hs HoldP. lia. }
    unfold opos. apply StronglySorted_app_lt; [exact Hs0|apply (H3 starts_sorted)|].
    intros x y Hx Hy. rewrite Forall_forall in Hb0. specialize (Hb0 x Hx).
    rewrite Forall_forall in Hsb. destruct (Hsb y Hy) as (H1 & H2' & _). fold a0 in Hb0. clear - Hb0 H1 H2'. lia. }
  assert (Hpc' : pre_cont P PRE (ser OLD) opos adm cmax rm).
  { unfold opos. rewrite EserO. exact Hpc. }
  assert (Hrd : pre_reads P PRE (ser OLD) opos adm cmax rm).
  { apply (pre_reads_of_cont P HBS_lo HBS_hi Hcrc). exact Hpc'. }
  (* geometry *)
  assert (Hadm_all : forall mm, adm (mm * NB P)) by exact Hadm0.
  assert (Hhi' : (hi - base) * FB <= ffp (lenN PRE)).
  { replace ((hi - base) * FB) with ((hi - base) * NB P * B) by (unfold FILE_BYTES; lia).
    apply Hblk2. replace ((hi - base) * NB P * B) with ((hi - base) * FB) by (unfold FILE_BYTES; lia).
    exact Hreach'. }
  assert (HwfO : Forall wf_entry OLD).
  { unfold OLD. apply Forall_app. split; [exact HWf|].
    rewrite HX in HwfX. apply Forall_app in HwfX. apply HwfX. }
  assert (HSt : stream_of (fs_ext P img lo' n) (iota lo' (S n)) =
                dropN ((lo' - base) * FB) (PRE ++ zerosN zz)).
  { rewrite Eext, <- HSp. exact Hstream. }
  assert (HlenS' : lenN (PRE ++ zerosN zz) = (lo' + N.of_nat n - base + 1) * FB).
  { rewrite <- HSp, Ecur. exact HlenS. }
  assert (Hroom' : lenN PRE + rm <= lenN (PRE ++ zerosN zz)) by (rewrite <- HSp; exact Hroom).
  assert (Hhimax' : lo' + N.of_nat n <= U64_MAX) by (rewrite Ecur; exact Hhimax).
  assert (Htop' : forall x, lo' + N.of_nat n < x -> x <= U64_MAX -> fs_get img (filename x) = None)
    by (rewrite Ecur; exact Htop).
  assert (Hhi'' : (lo' + N.of_nat n - base) * FB <= ffp (lenN PRE)) by (rewrite Ecur; exact Hhi').
  assert (Hbffp : (lo' - base) * FB <= ffp (lenN PRE)).
  { assert ((lo' - base) * FB <= (hi - base) * FB) by (apply N.mul_le_mono_r; clear - Hlohi; lia).
    clear - H Hhi'. lia. }
  assert (Hadmk : adm ((lo' - base) * NB P)) by apply Hadm_all.
  assert (Hgc_any : forall mabs, crash_boundJ G X mabs ->
            forall extra, pos_extra mabs extra ->
              FB * base + cursor_after (lenN PRE) (ser extra) <= FB * (U64_MAX + 1)).
  { intros mabs Hcbm extra Hx. apply (Hcbm (lenN PRE) extra Hx); [exact HTP|].
    rewrite map_app. fold (jser0 G). fold a0. unfold ResyncProofs.cursor_after. exact HPT'. }
  assert (Eopos : opos = jpos0 G ++ starts (lenN T) xs_d).
  { unfold opos, JInv.jpos. rewrite (H3 starts_app), <- app_assoc. fold a0. do 3 f_equal.
    unfold T. rewrite (jT_len P PRE0 OLD0 G). reflexivity. }
  (* the logical ghost *)
  assert (Hlog : exists qs_log lo_log Glog,
            LInv qs_log lo_log Glog /\ gh_ALL Glog = OLD /\ gh_base Glog = base /\
            Forall (fun s => (lo' - base) * FB <= snd s) (skipn (gh_k Glog) opos) /\
            ((Xd = [] /\ forall q, s_get (abs_qs qs_log) q = s_get (abs_qs (s_qs st)) q) \/
             (Xd <> [] /\ forall q, s_get (abs_qs qs_log) q = s_get (abs_qs (s_qs st')) q))).
  { destruct nu as [|nu'].
    - (* no file unlinked: the ghost of the delivered prefix of the call *)
      assert (Elo' : lo' = lo) by (unfold lo'; cbn; lia).
      destruct (Hprefix Xd Xr HX) as (Gd & qsd & HLd & Ebd & Ebefd & EEd & Hnil & Hcons).
      assert (EALLd : gh_ALL Gd = OLD).
      { rewrite gh_ALL_split, Ebefd, EEd, app_assoc, <- gh_ALL_split. reflexivity. }
      assert (Ekd : gh_k Gd = gh_k G) by (rewrite <- !gh_before_length, Ebefd; reflexivity).
      exists qsd, lo, Gd. split; [exact HLd|]. split; [exact EALLd|]. split; [exact Ebd|].
      split.
      { rewrite Ekd, Elo', Eopos.
        rewrite skipn_app_le.
        2:{ rewrite (jpos_length P HBS_lo HBS_hi HNB Hcrc PRE0 OLD0 opos0 w G Hpre0 HP).
            rewrite gh_ALL_split, app_length, gh_before_length. lia. }
        apply Forall_app. split.
        - exact (pinvJ_E_positions P PRE0 OLD0 opos0 w G HP).
        - pose proof (starts_ge_ffp P HBS_lo HBS_hi Hcrc xs_d (lenN T)) as Hs.
          eapply Forall_impl; [|exact Hs]. cbn beta. intros s Hs'.
          rewrite <- Elo'. clear - Hs' Hc2c Ec0 Elo'. lia. }
      destruct Xd as [|x Xd''].
      + left. split; [reflexivity|]. now apply Hnil.
      + right. split; [discriminate|]. apply Hcons. discriminate.
    - (* some files unlinked: everything was written; the ghost after the call *)
      assert (Hjfull : j = lenN NEW) by (apply Hnuj; discriminate).
      assert (HXr0 : Xr = []).
      { destruct Xr as [|xr Xr']; [reflexivity|exfalso].
        assert (Hne : xs_r <> []) by (rewrite <- HXr; discriminate).
        specialize (Hfullj Hne). rewrite <- ENEW in Hfullj. clear - Hfullj Hjfull. lia. }
      assert (EXd : Xd = X) by (rewrite HX, HXr0; now rewrite app_nil_r).
      exists (s_qs st'), (wlo w'), G'.
      split; [exact HL'|]. split; [unfold OLD; rewrite EXd; exact EALL'|]. split; [exact Eb|].
      split.
      { pose proof (pinvJ_E_positions P PRE0 OLD0 opos0 w' G' HP') as Hpos'. rewrite Eb in Hpos'.
        assert (Ejp' : jpos0 G' = opos).
        { unfold opos, JInv.jpos, JInv.jser, JInv.jNEW. rewrite EALL', skipn_app_le by exact Hjlen.
          rewrite map_app, <- HXd, EXd. reflexivity. }
        rewrite <- Ejp'.
        eapply Forall_impl; [|exact Hpos']. cbn beta. intros s Hs'.
        assert ((lo' - base) * FB <= (wlo w' - base) * FB) by (apply N.mul_le_mono_r; clear - Hlo'x; lia).
        clear - H Hs'. lia. }
      destruct (nil_dec X) as [E0|Hne].
      + left. split; [congruence|]. exact (Hnilabs E0).
      + right. split; [congruence|]. intros q. reflexivity. }
  destruct Hlog as (qs_log & lo_log & Glog & HLlog & HALLlog & Eblog & Hklog & Habs).
  assert (Hgcb : forall extra, pos_extra (abs_qs qs_log) extra ->
            FB * base + cursor_after (lenN PRE) (ser extra) <= FB * (U64_MAX + 1)).
  { destruct Habs as [[_ Ha]|[_ Ha]].
    - apply (Hgc_any (abs_qs qs_log)). exact (crash_boundJ_ext P PRE0 OLD0 G X _ _ Ha Hcb).
    - apply (Hgc_any (abs_qs qs_log)). exact (crash_boundJ_ext P PRE0 OLD0 G X _ _ Ha Hcb'). }
  exists PRE, OLD, opos, adm, cmax, rm, lo', n, zz, qs_log, lo_log, Glog.
  split; [exact Hpre|]. split; [exact Hpc'|]. split; [exact Hrm7|]. split; [exact Hadm_all|].
  split.
  { unfold rc_hyps. cbv zeta.
    split; [exact Hlistx|]. split; [exact Hfilesx|]. split; [exact Hbase''|]. split; [exact Hhimax'|].
    split; [exact Hndk|]. split; [exact Hdir|]. split; [exact Htop'|]. split; [exact HSt|].
    split; [exact HlenS'|]. split; [exact Hadmk|]. split; [exact Hroom'|]. split; [exact HwfO|].
    split; [exact Hhi''|]. split; [exact Hbffp|]. split; [exact HLlog|]. split; [exact HALLlog|].
    split; [exact Eblog|]. split; [exact Hklog|exact Hgcb]. }
  split; [rewrite Ecur; exact Htophi|]. split; [rewrite Ecur; exact Hf0hi|].
  split; [rewrite Ecur; exact Hhif1|].
  destruct Habs as [[_ Ha]|[_ Ha]]; [left|right]; exact Ha.
Qed.

(* the recovery of a crash image of a virtual call st -> st' logging the entries X *)
Theorem recover_vcall_setup st G (X : list entry) st' G' evs :
  InvJ0 st G -> w_pending (s_wr st) = [] ->
  InvJ0 st' G' -> gh_base G' = gh_base G -> gh_ALL G' = gh_ALL G ++ X ->
  w_pending (s_wr st') = [] -> Forall wf_entry X ->
  call_trace P (wlo (s_wr st)) (w_file (s_wr st)) (w_off (s_wr st))
             (encs_of (call_cursor P st G) (ser X)) (w_file (s_wr st')) (w_off (s_wr st')) evs ->
  c_fs (w_ctx (s_wr st')) = fold_left apply_event evs (c_fs (w_ctx (s_wr st))) ->
  (* logical atomicity of every prefix of X *)
  (forall Xd Xr, X = Xd ++ Xr ->
     exists Gd qsd,
       LInv qsd (wlo (s_wr st)) Gd /\ gh_base Gd = gh_base G /\ gh_before Gd = gh_before G /\
       map snd (gh_E Gd) = map snd (gh_E G) ++ Xd /\
       (Xd = [] -> forall q, s_get (abs_qs qsd) q = s_get (abs_qs (s_qs st)) q) /\
       (Xd <> [] -> forall q, s_get (abs_qs qsd) q = s_get (abs_qs (s_qs st')) q)) ->
  (X = [] -> forall q, s_get (abs_qs (s_qs st')) q = s_get (abs_qs (s_qs st)) q) ->
  crash_boundJ G X (abs_qs (s_qs st)) ->
  crash_boundJ G X (abs_qs (s_qs st')) ->
  w_file (s_wr st') = w_file (s_wr st) ->
  w_off (s_wr st') + B <= FB ->
  forall pe, cpre pe evs ->
      let img := fold_left apply_event pe (c_fs (w_ctx (s_wr st))) in
      exists PRE OLD opos adm cmax rm lo' n zz qs_log lo_log Glog,
        pre_ok PRE OLD opos /\ pre_cont P PRE (ser OLD) opos adm cmax rm /\ rm <= 7 /\
        (forall m, adm (m * NB P)) /\
        rc_hyps P PRE OLD opos adm rm img lo' n (gh_base G) zz qs_log lo_log Glog /\
        lo' + N.of_nat n = w_file (s_wr st) /\
        ((forall q, s_get (abs_qs qs_log) q = s_get (abs_qs (s_qs st)) q) \/
         (forall q, s_get (abs_qs qs_log) q = s_get (abs_qs (s_qs st')) q)).
Proof.
  intros HI Hp0 HI' Eb EALL' Hp0' HwfX Hct Hfs Hprefix Hnilabs Hcb Hcb' Hroll Hblkend
         pe Hcpre. cbn zeta.
  assert (Hfit : w_off (s_wr st) + lenN (ev_data pe) + B <= FB).
  { pose proof HI as (HP & _). pose proof HP as (Hw & _). pose proof Hw as (_ & _ & Hoff & _).
    pose proof (HW call_trace_pos _ _ _ _ _ _ _ Hct Hoff) as Hctp.
    destruct (cpre_data_take _ _ Hcpre) as (_ & Hj).
    rewrite (call_trace_data _ _ _ _ _ _ _ _ Hct) in Hj. rewrite Hroll in Hctp.
    clear - Hctp Hj Hblkend. lia. }
  destruct (recover_vcall_setup_gen st G X st' G' evs HI Hp0 HI' Eb EALL' Hp0' HwfX Hct Hfs Hprefix Hnilabs
              Hcb Hcb' pe Hcpre)
    as (PRE & OLD & opos & adm & cmax & rm & lo' & n & zz & qs_log & lo_log & Glog &
        H1 & H2' & H3' & H4 & H5 & _ & H6 & H6' & H7).
  { right. intros hi _ Hle. left.
    assert ((w_file (s_wr st) + 1) * FB <= (hi + 1) * FB) by (apply N.mul_le_mono_r; clear - Hle; lia).
    rewrite N.mul_add_distr_r in H. clear - H Hfit. lia. }
  exists PRE, OLD, opos, adm, cmax, rm, lo', n, zz, qs_log, lo_log, Glog.
  repeat (split; [assumption|]). split; [rewrite Hroll in H6'; clear - H6 H6'; lia|]. exact H7.
Qed.

(* the recovery of a crash image of a virtual call *)
Theorem recover_vcall st G (X : list entry) st' G' evs :
  InvJ0 st G -> w_pending (s_wr st) = [] ->
  InvJ0 st' G' -> gh_base G' = gh_base G -> gh_ALL G' = gh_ALL G ++ X ->
  w_pending (s_wr st') = [] -> Forall wf_entry X ->
  call_trace P (wlo (s_wr st)) (w_file (s_wr st)) (w_off (s_wr st))
             (encs_of (call_cursor P st G) (ser X)) (w_file (s_wr st')) (w_off (s_wr st')) evs ->
  c_fs (w_ctx (s_wr st')) = fold_left apply_event evs (c_fs (w_ctx (s_wr st))) ->
  (forall Xd Xr, X = Xd ++ Xr ->
     exists Gd qsd,
       LInv qsd (wlo (s_wr st)) Gd /\ gh_base Gd = gh_base G /\ gh_before Gd = gh_before G /\
       map snd (gh_E Gd) = map snd (gh_E G) ++ Xd /\
       (Xd = [] -> forall q, s_get (abs_qs qsd) q = s_get (abs_qs (s_qs st)) q) /\
       (Xd <> [] -> forall q, s_get (abs_qs qsd) q = s_get (abs_qs (s_qs st')) q)) ->
  (X = [] -> forall q, s_get (abs_qs (s_qs st')) q = s_get (abs_qs (s_qs st)) q) ->
  crash_boundJ G X (abs_qs (s_qs st)) ->
  crash_boundJ G X (abs_qs (s_qs st')) ->
  w_file (s_wr st') = w_file (s_wr st) ->
  w_off (s_wr st') + B <= FB ->
  forall pe, cpre pe evs -> forall pol hint,
      let img := fold_left apply_event pe (c_fs (w_ctx (s_wr st))) in
      exists PRE OLD opos adm cmax rm st_r G_r,
        open P img None pol hint = OpenOk st_r /\
        pre_ok PRE OLD opos /\ pre_cont P PRE (ser OLD) opos adm cmax rm /\ rm <= 7 /\
        (forall m, adm (m * NB P)) /\
        InvJ P PRE OLD opos st_r G_r /\
        lenN PRE + rm <= (w_file (s_wr st_r) + 1 - gh_base G_r) * FB /\
        s_pol st_r = pol /\ w_pending (s_wr st_r) = [] /\
        ((forall q, s_get (abs_qs (s_qs st_r)) q = s_get (abs_qs (s_qs st)) q) \/
         (forall q, s_get (abs_qs (s_qs st_r)) q = s_get (abs_qs (s_qs st')) q)).
Proof.
  intros HI Hp0 HI' Eb EALL' Hp0' HwfX Hct Hfs Hprefix Hnilabs Hcb Hcb' Hroll Hblkend
         pe Hcpre pol hint. cbn zeta.
  destruct (recover_vcall_setup st G X st' G' evs HI Hp0 HI' Eb EALL' Hp0' HwfX Hct Hfs Hprefix Hnilabs
              Hcb Hcb' Hroll Hblkend pe Hcpre)
    as (PRE & OLD & opos & adm & cmax & rm & lo' & n & zz & qs_log & lo_log & Glog &
        Hpre & Hpc & Hrm & Hadm & Hrc & Ehi & Habs).
  cbn zeta in Hrc.
  pose proof (pre_reads_of_cont P HBS_lo HBS_hi Hcrc PRE (ser OLD) opos adm cmax rm Hpc) as Hrd.
  destruct (recover_core_pk P HBS_lo HBS_hi HNB Hcrc HGC HIO HSHORT PRE OLD opos adm cmax rm _ lo' n
              (gh_base G) zz qs_log lo_log Glog pol hint Hpre Hrd Hrc)
    as (st_r & G_r & Hopen & HIr & Habsr & Ebr & Hfr & Hpolr & Hpendr).
  pose proof Hrc as (_ & _ & Hbase3 & _ & _ & _ & _ & _ & HlenS & _ & Hroom & _ & _ & _ & _ & _ & Eblog & _).
  cbv zeta in HlenS, Hroom, Hbase3.
  exists PRE, OLD, opos, adm, cmax, rm, st_r, G_r.
  split; [exact Hopen|]. split; [exact Hpre|]. split; [exact Hpc|]. split; [exact Hrm|].
  split; [exact Hadm|]. split; [exact HIr|].
  split.
  { rewrite Ebr, Eblog. rewrite HlenS in Hroom.
    assert ((lo' + N.of_nat n - gh_base G + 1) * FB <= (w_file (s_wr st_r) + 1 - gh_base G) * FB)
      by (apply N.mul_le_mono_r; lia).
    lia. }
  split; [exact Hpolr|]. split; [exact Hpendr|].
  destruct Habs as [Ha|Ha]; [left|right]; intros q; now rewrite Habsr, Ha.
Qed.

End Recover3.

Print Assumptions recover_vcall_setup_gen.
Print Assumptions recover_vcall_setup.
Print Assumptions recover_vcall.
